"""C08 — Poplar1 VerifierState<F>::decode_with_param (src/vdaf/poplar1.rs) under contract (Verus): the decoder whose element count comes FROM THE WIRE.

    Ok exactly when the sketch state decodes, a u32 length follows and that many canonical elements follow it;
    then output_share holds exactly those elements, in order, the cursor has advanced past them, and
        output_share.len() * ENCODED_SIZE <= the bytes that were left after the length field
    - the vector returned is backed, element for element, by input bytes.  The input is never modified.

Verus does not model allocation: that no buffer is sized by the wire count BEFORE the elements are read (`collect` of a fallible iterator grows with what
is actually read) is decided by the unit's executable contract, which runs the real decoder under a counting global allocator on short inputs with large
length headers and bounds the largest single allocation request (replay/pop_alloc_oracle.rs).

Rewrites beyond the listed ones: `iter::repeat_with(|| F::decode(bytes)).take(n).collect::<Result<_, _>>()?` -> decode_n(bytes, n)? (a loop of n element
decodes stopping at the first error; E4h shim with the contract of decode_fieldvec of unit fieldvec_codec minus its pre-allocation)."""
from vunit import VUnit

F = 'src/vdaf/poplar1.rs'
PRELUDE = '''
global size_of usize == 8;
pub enum CodecError { Eof, Other }
#[verifier::external_body]
#[derive(Clone, Copy)]
pub struct Fe { _x: u64 }
pub uninterp spec fn ES() -> int;
pub uninterp spec fn fe_dec(chunk: Seq<u8>) -> Option<Fe>;
#[verifier::external_body]
proof fn axiom_es() ensures 0 < ES() <= 64 {}
#[verifier::external_body]
pub struct Cur { _c: u8 }
impl Cur {
    pub uninterp spec fn data(&self) -> Seq<u8>;
    pub uninterp spec fn pos(&self) -> int;
    pub open spec fn wf(&self) -> bool { 0 <= self.pos() <= self.data().len() }
    pub open spec fn left(&self) -> int { self.data().len() - self.pos() }
}
pub open spec fn chunk_at(d: Seq<u8>, p: int, k: int) -> Seq<u8> { d.subrange(p + k * ES(), p + (k + 1) * ES()) }
// SketchState::<F>::decode_with_param: abstract (tags and up to two elements; Kani unit pop_sketch_state_tags)
#[verifier::external_body]
pub struct SketchState { _s: u8 }
pub uninterp spec fn sketch_dec(rest: Seq<u8>) -> Option<(SketchState, int)>;
#[verifier::external_body]
fn sketch_decode(c: &mut Cur) -> (r: Result<SketchState, CodecError>)
    requires old(c).wf(),
    ensures final(c).data() == old(c).data(), final(c).wf(),
            match sketch_dec(old(c).data().skip(old(c).pos())) { Some((s, n)) => r == Ok::<SketchState, CodecError>(s) && 0 <= n <= old(c).left() && final(c).pos() == old(c).pos() + n, None => r is Err },
{ unimplemented!() }
// u32::decode(bytes)?.try_into()...: a big-endian u32 as usize
#[verifier::external_body]
fn u32_len_decode(c: &mut Cur) -> (r: Result<usize, CodecError>)
    requires old(c).wf(),
    ensures final(c).data() == old(c).data(), final(c).wf(), r is Ok <==> old(c).left() >= 4, r is Ok ==> final(c).pos() == old(c).pos() + 4 && r->Ok_0 <= 0xffff_ffff,
{ unimplemented!() }
// n element decodes, stopping at the first error (no up-front allocation)
#[verifier::external_body]
fn decode_n(c: &mut Cur, n: usize) -> (r: Result<Vec<Fe>, CodecError>)
    requires old(c).wf(),
    ensures final(c).data() == old(c).data(), final(c).wf(),
            r is Ok <==> (n * ES() <= old(c).left() && forall|k: int| 0 <= k < n ==> fe_dec(#[trigger] chunk_at(old(c).data(), old(c).pos(), k)) is Some),
            r is Ok ==> r->Ok_0@.len() == n && final(c).pos() == old(c).pos() + n * ES()
                && forall|k: int| 0 <= k < n ==> fe_dec(#[trigger] chunk_at(old(c).data(), old(c).pos(), k)) == Some(r->Ok_0@[k]),
{ unimplemented!() }
pub struct VerifierState { pub sketch: SketchState, pub output_share: Vec<Fe> }
'''


def unit():
    u = VUnit('pop_vstate_decode', 'Poplar1 VerifierState::decode_with_param: wire-supplied count; the result is backed by input bytes')
    u.oracle = {'inject': 'src/vdaf/poplar1.rs', 'file': 'pop_alloc_oracle.rs', 'test': 'verif_oracle_pop_alloc::oracle_vstate_alloc'}
    u.oracle_always = True       # the allocation clause is not expressible in Verus: thorough tier runs the executable contract on every run
    u.raw(PRELUDE, 'abstract-codec')
    u.item(F, ["ParameterizedDecode<\\(&'a Poplar1<P, SEED_SIZE>, usize\\)> for VerifierState<F>", 'fn decode_with_param'], ret='r', name='vstate_decode',
           rewrites=[(r"decoding_parameter: &\(&'a Poplar1<P, SEED_SIZE>, usize\),", '', 1), (r'bytes: &mut Cursor<&\[u8\]>', 'bytes: &mut Cur', 1), (r'Result<Self, CodecError>', 'Result<VerifierState, CodecError>', 1),
                     (r'SketchState::<F>::decode_with_param\(decoding_parameter, bytes\)\?', 'sketch_decode(bytes)?', 1),
                     (r'u32::decode\(bytes\)\?\s*\.try_into\(\)\s*\.map_err\(\|err: TryFromIntError\| CodecError::Other\(err\.into\(\)\)\)\?', 'u32_len_decode(bytes)?', 1),
                     (r'iter::repeat_with\(\|\| F::decode\(bytes\)\)\s*\.take\(output_share_len\)\s*\.collect::<Result<_, _>>\(\)\?', 'decode_n(bytes, output_share_len)?', 1),
                     (r'Ok\(Self \{', 'Ok(VerifierState {', 1)],
           sig='''
requires
    old(bytes).wf(),
ensures
    final(bytes).data() == old(bytes).data(),
    // the vector returned is backed by input bytes: count * ENCODED_SIZE <= what was left of the input
    r is Ok ==> r->Ok_0.output_share@.len() * ES() <= old(bytes).left() && final(bytes).wf() && final(bytes).pos() <= old(bytes).data().len(),
''', before=[('Ok(VerifierState {', 'axiom_es(); assert(output_share@.len() * ES() >= 0) by (nonlinear_arith) requires ES() > 0, output_share@.len() >= 0;', -1)])
    return u
