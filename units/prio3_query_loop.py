"""C01/C16 — the per-proof query loop of Prio3::verify_init (E9 fragment, lifted verbatim) under contract for ANY number of proofs (Verus;
the Kani harness p3_verify_init_proof_slices is the bounded stand-in: 2 proofs).

The FLP type is abstract: query_rand_len / joint_rand_len / proof_len / verifier_len are arbitrary constants, `Type::query` an
uninterpreted partial function query_spec(measurement share, proof slice, query-rand slice, joint-rand slice, num_shares) whose Ok
results have verifier_len elements (C05).  Contract of the fragment, given the three vectors have exactly len*num_proofs elements
(established by the length guards and the derive_* functions before the loop):

    no slice is out of bounds and no index computation overflows, for every number of proofs;
    Ok exactly when query succeeds for EVERY proof p on (the whole measurement share, proofs_share[p*PL..(p+1)*PL],
        query_rands[p*QL..(p+1)*QL], joint_rands[p*JL..(p+1)*JL], num_aggregators);
    then verifiers_share is the concatenation, in proof order, of the per-proof verifiers (verifier_len*num_proofs elements).

Rewrites beyond the listed ones: `&v[a..b]` -> vec_slice(&v, a, b) (E3c: a sub-slice is verified as a copy with the same elements);
`x.append(&mut y)` -> vec_append(&mut x, y); `?` with From<FlpError> -> match (E4d)."""
from fe_common import FE_PRELUDE
from vunit import VUnit

F = 'src/vdaf/prio3.rs'
PRELUDE = '''
pub enum FlpError { Query(String), Other }
pub enum VdafError { Uncategorized(String), Flp(FlpError) }
pub struct Prio3Any { pub num_aggregators: u8, pub num_proofs: u8 }
pub uninterp spec fn query_spec(meas: Seq<Fe>, proof: Seq<Fe>, qr: Seq<Fe>, jr: Seq<Fe>, num_shares: int) -> Option<Seq<Fe>>;
impl Prio3Any {
    pub uninterp spec fn ql(&self) -> nat;
    pub uninterp spec fn jl(&self) -> nat;
    pub uninterp spec fn pl(&self) -> nat;
    pub uninterp spec fn vl(&self) -> nat;
    #[verifier::external_body]
    fn typ_query_rand_len(&self) -> (r: usize) ensures r == self.ql() { unimplemented!() }
    #[verifier::external_body]
    fn typ_joint_rand_len(&self) -> (r: usize) ensures r == self.jl() { unimplemented!() }
    #[verifier::external_body]
    fn typ_proof_len(&self) -> (r: usize) ensures r == self.pl() { unimplemented!() }
    fn num_proofs(&self) -> (r: usize) ensures r == self.num_proofs { self.num_proofs as usize }
    #[verifier::external_body]
    fn typ_query(&self, meas: &Vec<Fe>, proof: &Vec<Fe>, qr: &Vec<Fe>, jr: &Vec<Fe>, num_shares: usize) -> (r: Result<Vec<Fe>, FlpError>)
        ensures match query_spec(meas@, proof@, qr@, jr@, num_shares as int) { Some(v) => r is Ok && r->Ok_0@ == v && v.len() == self.vl(), None => r is Err }
    { unimplemented!() }
}
// &v[a..b]  (E3c)
#[verifier::external_body]
fn vec_slice(v: &Vec<Fe>, a: usize, b: usize) -> (r: Vec<Fe>) requires a <= b <= v@.len() ensures r@ == v@.subrange(a as int, b as int) { unimplemented!() }
// x.append(&mut y)
#[verifier::external_body]
fn vec_append(x: &mut Vec<Fe>, y: Vec<Fe>) ensures final(x)@ == old(x)@ + y@ { unimplemented!() }
// the verifier of proof p
pub open spec fn vq(s: Prio3Any, meas: Seq<Fe>, proofs: Seq<Fe>, qrs: Seq<Fe>, jrs: Seq<Fe>, p: int) -> Option<Seq<Fe>> {
    query_spec(meas, proofs.subrange(p * s.pl(), (p + 1) * s.pl()), qrs.subrange(p * s.ql(), (p + 1) * s.ql()), jrs.subrange(p * s.jl(), (p + 1) * s.jl()), s.num_aggregators as int)
}
// concatenation of the verifiers of proofs 0..n
pub open spec fn vcat(s: Prio3Any, meas: Seq<Fe>, proofs: Seq<Fe>, qrs: Seq<Fe>, jrs: Seq<Fe>, n: int) -> Seq<Fe> decreases n
{ if n <= 0 { Seq::empty() } else { vcat(s, meas, proofs, qrs, jrs, n - 1) + vq(s, meas, proofs, qrs, jrs, n - 1)->Some_0 } }
pub open spec fn all_q(s: Prio3Any, meas: Seq<Fe>, proofs: Seq<Fe>, qrs: Seq<Fe>, jrs: Seq<Fe>, n: int) -> bool { forall|p: int| 0 <= p < n ==> #[trigger] vq(s, meas, proofs, qrs, jrs, p) is Some }
proof fn lemma_slice_bounds(p: int, n: int, l: int)
    requires 0 <= p < n, l >= 0
    ensures 0 <= p * l <= (p + 1) * l <= n * l
{
    assert(p * l >= 0) by (nonlinear_arith) requires p >= 0, l >= 0;
    assert((p + 1) * l == p * l + l) by (nonlinear_arith);
    assert((p + 1) * l <= n * l) by (nonlinear_arith) requires p + 1 <= n, l >= 0;
}
'''


def unit():
    u = VUnit('prio3_query_loop', 'Prio3::verify_init per-proof query loop: slicing and concatenation for any number of proofs')
    u.raw('global size_of usize == 8;\n' + FE_PRELUDE, 'abstract-field')
    u.raw(PRELUDE, 'abstract-type')
    u.item(F, ['impl<T, P, const SEED_SIZE: usize> Aggregator<SEED_SIZE, 16> for Prio3<T, P, SEED_SIZE>', 'fn verify_init'], ret='r', name='verify_init_query_loop',
           impl_header='impl Prio3Any', attrs='#[verifier::loop_isolation(false)]',
           rewrites=[(r'^.*?(for p in 0\.\.self\.num_proofs\(\) \{.*?\n        \})\s*\n\s*let state_share.*$',
                      r'fn verify_init_query_loop(&self, measurement_share: &Vec<Fe>, proofs_share: &Vec<Fe>, query_rands: &Vec<Fe>, joint_rands: &Vec<Fe>, verifiers_share: &mut Vec<Fe>) -> Result<(), VdafError> { \1 Ok(()) }', 1),
                     (r'self\.typ\.(\w+)\(', r'self.typ_\1(', '*'),
                     (r'&query_rands\[(.*?)\.\.(.*?)\];', r'&vec_slice(query_rands, \1, \2);', 1),
                     (r'&joint_rands\[(.*?)\.\.(.*?)\];', r'&vec_slice(joint_rands, \1, \2);', 1),
                     (r'&proofs_share\[(.*?)\.\.(.*?)\];', r'&vec_slice(proofs_share, \1, \2);', 1),
                     (r'verifiers_share\.append\(&mut self\.typ_query\(\s*measurement_share\.as_ref\(\),(.*?)\)\?\);',
                      r'vec_append(verifiers_share, match self.typ_query(measurement_share,\1) { Ok(v) => v, Err(e) => { return Err(VdafError::Flp(e)); } });', 1)],
           sig='''
requires
    // established before the loop: the guards on the leader share / the expansion of the helper seed, derive_query_rands, derive_joint_rands
    proofs_share@.len() == (self.num_proofs as int) * self.pl(),
    query_rands@.len() == (self.num_proofs as int) * self.ql(),
    joint_rands@.len() == (self.num_proofs as int) * self.jl(),
    old(verifiers_share)@.len() == 0,
    proofs_share@.len() <= usize::MAX, query_rands@.len() <= usize::MAX, joint_rands@.len() <= usize::MAX,       // true of every Vec
ensures
    r is Ok <==> all_q(*self, measurement_share@, proofs_share@, query_rands@, joint_rands@, self.num_proofs as int),
    r is Ok ==> final(verifiers_share)@ == vcat(*self, measurement_share@, proofs_share@, query_rands@, joint_rands@, self.num_proofs as int),
''', loops={0: '''
invariant
    all_q(*self, measurement_share@, proofs_share@, query_rands@, joint_rands@, p as int),
    verifiers_share@ == vcat(*self, measurement_share@, proofs_share@, query_rands@, joint_rands@, p as int),
'''}, before=[('let query_rand', '''
    lemma_slice_bounds(p as int, self.num_proofs as int, self.ql() as int);
    lemma_slice_bounds(p as int, self.num_proofs as int, self.jl() as int);
    lemma_slice_bounds(p as int, self.num_proofs as int, self.pl() as int);
'''), ('vec_append(verifiers_share', '''
    assert(vq(*self, measurement_share@, proofs_share@, query_rands@, joint_rands@, p as int) == query_spec(measurement_share@, proof_share@, query_rand@, joint_rand@, self.num_aggregators as int));
''')])
    return u
