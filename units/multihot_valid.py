"""C05/C02 — MultihotCountVec::valid (src/flp/types.rs) under contract (Verus), over the contracts of parallel_sum_range_checks (unit range_checks)
and decode_range_checked_int (unit range_int):

    Ok(v) ==> v == [range_check, weight_check] with range_check the range-check sum over the WHOLE input (counters and weight digits alike) and
              weight_check == (sum of the first `length` elements) - (range-checked integer value of the remaining elements)      (mod p)
    - every counter enters the weight, every digit of the claimed weight enters its decoding, none twice."""
from fe_common import FE_PRELUDE
import range_checks
from vunit import VUnit

T = 'src/flp/types.rs'
EXTRA = '''
pub enum FieldError { BitVectorTooLong }
#[verifier::external_body]
fn parallel_sum_range_checks(gadget: &mut GadgetBox, input: &Vec<Fe>, joint_randomness: &Vec<Fe>, chunk_length: usize, num_shares: usize) -> (res: Result<Fe, FlpError>)
    requires chunk_length >= 1, 2 * chunk_length <= usize::MAX,
    ensures res is Ok ==> range_post(input@, joint_randomness@, chunk_length as int, num_shares as int, inv_spec(fe_mk(num_shares as int)), res->Ok_0),
{ unimplemented!() }
// contract proved in unit range_int (same run): the linear range-checked integer decoding
pub open spec fn bsum(s: Seq<Fe>, n: int) -> int decreases n
{ if n <= 0 { 0 } else { bsum(s, n - 1) + fe_v(s[n - 1]) * (pow2((n - 1) as nat) as int) } }
pub open spec fn rc_val(s: Seq<Fe>, lw: Fe) -> int { if s.len() == 0 { 0 } else { bsum(s, s.len() - 1) + fe_v(s[s.len() - 1]) * fe_v(lw) } }
pub uninterp spec fn rc_ok(s: Seq<Fe>) -> bool;
#[verifier::external_body]
fn decode_range_checked_int(input: &Vec<Fe>, last_weight: Fe) -> (r: Result<Fe, FieldError>)
    ensures r is Ok <==> rc_ok(input@), r is Ok ==> cong(fe_v(r->Ok_0), rc_val(input@, last_weight))
{ unimplemented!() }
// &input[a..b] (E3c)
#[verifier::external_body]
fn vec_slice(v: &Vec<Fe>, a: usize, b: usize) -> (r: Vec<Fe>) requires a <= b <= v@.len() ensures r@ == v@.subrange(a as int, b as int) { unimplemented!() }
pub struct MultihotCountVec { pub length: usize, pub chunk_length: usize, pub bits_for_weight: usize, pub last_weight_field: Fe }
pub uninterp spec fn call_check_ok(h: MultihotCountVec, input: Seq<Fe>, jr: Seq<Fe>) -> bool;
impl MultihotCountVec {
    // valid_call_check: input.len() == input_len() == length + bits_for_weight (and the joint randomness length)
    #[verifier::external_body]
    fn valid_call_check(&self, input: &Vec<Fe>, joint_rand: &Vec<Fe>) -> (r: Result<(), FlpError>)
        ensures r is Ok <==> call_check_ok(*self, input@, joint_rand@), r is Ok ==> input@.len() == self.length + self.bits_for_weight
    { unimplemented!() }
}
pub open spec fn isum(v: Seq<Fe>, n: int) -> int decreases n { if n <= 0 { 0 } else { isum(v, n - 1) + fe_v(v[n - 1]) } }
'''


def unit():
    u = VUnit('multihot_valid', 'MultihotCountVec::valid: range check over the whole input + (sum of counters - decoded weight)')
    u.raw('global size_of usize == 8;\n' + FE_PRELUDE, 'abstract-field')
    u.raw(range_checks.PRELUDE, 'range-check-prelude')
    u.raw(range_checks.unit().parts[-1][2], 'range-post')
    u.raw(EXTRA, 'multihot-shims')
    u.item(T, ['impl<F, S> Flp for MultihotCountVec<F, S>', 'fn valid'], ret='res', impl_header='impl MultihotCountVec', attrs='#[verifier::loop_isolation(false)]',
           rewrites=[(r'g: &mut Vec<Box<dyn Gadget<F>>>', 'g0: &mut GadgetBox', 1), (r'&mut g\[0\]', 'g0', 1), (r'&\[F\]', '&Vec<Fe>', '*'), (r'Result<Vec<F>, FlpError>', 'Result<Vec<Fe>, FlpError>', 1),
                     (r'let count_vec = &input\[\.\.self\.length\];', 'let count_vec = &vec_slice(input, 0, self.length);', 1),
                     # fold(zero, |a, b| a + *b) == accumulation loop (E4c)
                     (r'let weight = count_vec\.iter\(\)\.fold\(F::zero\(\), \|a, b\| a \+ \*b\);', 'let mut weight = fe_zero(); for k_ in 0..count_vec.len() { weight = weight + count_vec[k_]; }', 1),
                     (r'decode_range_checked_int\(&input\[self\.length\.\.\], self\.last_weight_field\)\?',
                      '(match decode_range_checked_int(&vec_slice(input, self.length, input.len()), self.last_weight_field) { Ok(v) => v, Err(_) => { return Err(FlpError::Field); } })', 1)],
           sig='''
requires
    self.chunk_length >= 1, 2 * self.chunk_length <= usize::MAX, self.length + self.bits_for_weight <= usize::MAX,        // established by MultihotCountVec::new (unit flp_new)
ensures
    res is Ok ==> call_check_ok(*self, input@, joint_rand@) && res->Ok_0@.len() == 2
        && range_post(input@, joint_rand@, self.chunk_length as int, num_shares as int, inv_spec(fe_mk(num_shares as int)), res->Ok_0@[0])
        // weight check: EVERY counter is summed, EVERY remaining element is a digit of the claimed weight
        && cong(fe_v(res->Ok_0@[1]), isum(input@, self.length as int) - rc_val(input@.subrange(self.length as int, input@.len() as int), self.last_weight_field)),
''', loops={0: '''
invariant
    count_vec@ == input@.subrange(0, self.length as int),
    cong(fe_v(weight), isum(input@, k_ as int)),
'''}, before=[('for k_ in 0..count_vec.len()', '''
    broadcast use axiom_fe_mk, axiom_fe_range;
    lemma_cong_refl(0);
'''), ('weight = weight + count_vec[k_]', '''
    broadcast use axiom_fe_mk;
    lemma_ops(weight, count_vec@[k_ as int]);
    lemma_c0(count_vec@[k_ as int]);
    lemma_cong_add(fe_v(weight), isum(input@, k_ as int), fe_v(count_vec@[k_ as int]), fe_v(input@[k_ as int]));
    lemma_cong_trans(fe_v(fe_mk(fe_v(weight) + fe_v(count_vec@[k_ as int]))), fe_v(weight) + fe_v(count_vec@[k_ as int]), isum(input@, k_ + 1));
'''), ('let weight_check', '''
    broadcast use axiom_fe_mk;
    lemma_ops(weight, weight_reported);
    lemma_cong_sub(fe_v(weight), isum(input@, self.length as int), fe_v(weight_reported), rc_val(input@.subrange(self.length as int, input@.len() as int), self.last_weight_field));
    lemma_cong_trans(fe_v(fe_mk(fe_v(weight) - fe_v(weight_reported))), fe_v(weight) - fe_v(weight_reported), isum(input@, self.length as int) - rc_val(input@.subrange(self.length as int, input@.len() as int), self.last_weight_field));
''')])
    return u
