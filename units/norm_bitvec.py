"""C06/C03 — the cache-key type NormalizedBitVec (src/idpf.rs) under contract (Verus), with `bitvec::BitVec` an ABSTRACT type whose storage behaviour is
given by assumed contracts (the crate itself is out of reach of both engines, R3):

    a BitVec has a logical bit sequence bits(), a head offset head() of its first bit inside the first storage word, and raw storage raw();
    force_align() moves the bits to head 0 without changing them; set_uninitialized(false) clears the storage bits outside the live range without changing
    the live ones or the head; to_bitvec()/from_bitslice PRESERVE the head offset of the slice they copy (this is what makes force_align necessary);
    axiom (bitvec storage): two vectors with head 0 and cleared dead bits have equal raw storage and equal length iff their bit sequences are equal.

Contracts:  NormalizedBitVec::from(v): the key is CANONICAL (head 0, dead bits cleared) and carries exactly the bits of v;
            NormalizedBitVec::eq(a, b) on canonical keys  <==>  a and b are the same bit sequence
- so two cache keys are equal exactly when the prefixes are equal, whatever bit offset the prefixes had in their backing storage.  (Hash consistency follows the
same way; RingBufferCache/HashMapCache lookups are std collections over this key type.)

The unit's executable contract evaluates HashMapCache and RingBufferCache on the real bitvec: a prefix cached at head offset 0 must not be returned for a
DIFFERENT prefix of the same length that sits at another bit offset of a larger buffer, and must be returned for an equal prefix at any offset."""
from vunit import VUnit

F = 'src/idpf.rs'
PRELUDE = '''
global size_of usize == 8;
#[verifier::external_body]
pub struct BitVec { _b: u8 }
impl BitVec {
    pub uninterp spec fn bits(&self) -> Seq<bool>;
    pub uninterp spec fn head(&self) -> int;
    pub uninterp spec fn dead_clear(&self) -> bool;
    pub uninterp spec fn raw(&self) -> Seq<usize>;
    pub open spec fn canonical(&self) -> bool { self.head() == 0 && self.dead_clear() }
    #[verifier::external_body]
    fn force_align(&mut self) ensures final(self).bits() == old(self).bits(), final(self).head() == 0 { unimplemented!() }
    #[verifier::external_body]
    fn set_uninitialized(&mut self, value: bool)
        ensures final(self).bits() == old(self).bits(), final(self).head() == old(self).head(), !value ==> final(self).dead_clear()
    { unimplemented!() }
    #[verifier::external_body]
    fn as_raw_slice(&self) -> (r: &[usize]) ensures r@ == self.raw() { unimplemented!() }
    #[verifier::external_body]
    fn len(&self) -> (r: usize) ensures r == self.bits().len() { unimplemented!() }
}
// bitvec storage: canonical vectors are determined by (raw storage, length), and determine them
#[verifier::external_body]
proof fn axiom_canonical_storage(a: BitVec, b: BitVec)
    requires a.canonical(), b.canonical()
    ensures (a.raw() == b.raw() && a.bits().len() == b.bits().len()) <==> a.bits() == b.bits()
{}
// slice equality on the raw storage words
#[verifier::external_body]
fn raw_eq(a: &[usize], b: &[usize]) -> (r: bool) ensures r == (a@ == b@) { unimplemented!() }
'''


def unit():
    u = VUnit('norm_bitvec', 'NormalizedBitVec: canonical keys; key equality == equality of the bit sequences (bitvec storage behaviour assumed)')
    u.oracle = {'inject': 'src/idpf.rs', 'file': 'idpf_cache_oracle.rs', 'test': 'verif_oracle_idpf_cache::oracle_cache_keys'}
    u.raw(PRELUDE, 'abstract-bitvec')
    u.struct_item(F, ['struct NormalizedBitVec'], rewrites=[(r'struct NormalizedBitVec\(', 'pub struct NormalizedBitVec(pub ', 1)])
    u.item(F, ['impl From<BitVec> for NormalizedBitVec', 'fn from'], ret='r', impl_header='impl NormalizedBitVec',
           rewrites=[(r'-> Self\b', '-> NormalizedBitVec', 1), (r'\bSelf\(value\)', 'NormalizedBitVec(value)', 1)],
           sig='''
ensures
    // the key is canonical and carries exactly the bits it was built from, whatever their offset in the backing storage was
    r.0.canonical(), r.0.bits() == value.bits(),
''')
    u.item(F, ['impl PartialEq for NormalizedBitVec', 'fn eq'], ret='r', impl_header='impl NormalizedBitVec', name='key_eq',
           rewrites=[(r'other: &Self', 'other: &NormalizedBitVec', 1), (r'self\.0\.as_raw_slice\(\) == other\.0\.as_raw_slice\(\)', 'raw_eq(self.0.as_raw_slice(), other.0.as_raw_slice())', 1)],
           sig='''
requires
    self.0.canonical(), other.0.canonical(),          // type invariant: `from` is the only constructor
ensures
    r == (self.0.bits() == other.0.bits()),           // equal keys <==> equal prefixes
''', before=[('raw_eq(self.0.as_raw_slice(), other.0.as_raw_slice())', 'axiom_canonical_storage(self.0, other.0);')])
    return u
