"""C01 — L1BoundSum::truncate (src/flp/types/l1boundsum.rs) under contract (Verus), on top of unit range_int (whose whole text is
re-generated and re-verified here: decode_bitvector, decode_range_checked_int, truncate_call_check, chunk shims):

    Ok exactly when the input has input_len() elements and each of the first measurement_len chunks of `bits` elements decodes;
    output coordinate j (j < measurement_len) is the range-checked integer value of chunk j - LINEAR chunk by chunk, in order - and the
    last chunk (the claimed L1 norm, needed only for validity) is dropped: exactly measurement_len coordinates.

With unit encode_int (chunk j of the encoding decodes to entry j) this is truncate(encode(m)) == m for L1BoundSum, as for Sum / SumVec.
Rewrite: `for chunk in input.chunks(self.bits).take(self.measurement_len)` -> index loop over min(number of chunks, measurement_len)
chunk shims (E4i + the definition of take)."""
import range_int

T = 'src/flp/types.rs'
L1 = 'src/flp/types/l1boundsum.rs'


def unit():
    u = range_int.unit()
    u.name = 'l1_truncate'
    u.desc = 'L1BoundSum::truncate: first measurement_len chunks decoded in order, the norm chunk dropped'
    u.struct_item(L1, ['pub struct L1BoundSum'], rewrites=[(r'<F: NttFriendlyFieldElement, S>', '', 1), (r'F::Integer', 'u128', '*'), (r': F,', ': Fe,', '*'),
                                                           (r'phantom: PhantomData<\(S, F\)>,', '', 1), (r'pub\(super\) ', 'pub ', '*')])
    u.raw('impl L1BoundSum { fn input_len(&self) -> (r: usize) ensures r == self.measurement_len_in_bits { self.measurement_len_in_bits } }\n', 'L1-input-len')
    u.item('src/flp.rs', ['pub trait Flp', 'fn truncate_call_check'], ret='r', impl_header='impl L1BoundSum', name='L1_truncate_call_check',
           rewrites=[(r'input: &\[Self::Field\]', 'input: &Vec<Fe>', 1), (r'format!\((?:[^()]|\([^()]*\))*\)', 'fmt_opaque()', '*')],
           sig='ensures\n    r is Ok <==> input@.len() == self.measurement_len_in_bits,')
    ERRC = (r'decode_range_checked_int\(([^;]*?)\)\?', r'(match decode_range_checked_int(\1) { Ok(v) => v, Err(e) => { return Err(FlpError::Field(e)); } })', 1)
    u.item(L1, ['impl<F, S> Type for L1BoundSum<F, S>', 'fn truncate'], ret='r', impl_header='impl L1BoundSum', name='L1_truncate', attrs='#[verifier::loop_isolation(false)]',
           rewrites=[(r'Vec<Self::Field>', 'Vec<Fe>', '*'), (r'self\.truncate_call_check\(', 'self.L1_truncate_call_check(', 1), ERRC,
                     (r'for chunk in input\.chunks\(self\.bits\)\.take\(([^(){}]*)\) \{',
                      r'let nall_ = chunks_count(input.len(), self.bits); let take_ = \1; let nchunks_ = if nall_ < take_ { nall_ } else { take_ }; '
                      r'for k_ in 0..nchunks_ { let chunk = &chunk_at(&input, self.bits, k_);', 1)],
           sig='''
requires
    // established by L1BoundSum::new (unit flp_new): bits >= 1 and measurement_len_in_bits == bits * (measurement_len + 1)
    self.bits > 0,
    self.measurement_len_in_bits == self.bits * (self.measurement_len + 1),
ensures
    r is Ok <==> input@.len() == self.measurement_len_in_bits && forall|j: int| 0 <= j < self.measurement_len ==> rc_ok(#[trigger] chunk_of(input@, self.bits as int, j)),
    // exactly measurement_len coordinates: the chunk holding the claimed norm is dropped
    r is Ok ==> r->Ok_0@.len() == self.measurement_len
        && forall|j: int| 0 <= j < self.measurement_len ==> cong(fe_v(#[trigger] r->Ok_0@[j]), rc_val(chunk_of(input@, self.bits as int, j), self.last_weight_field)),
''', loops={0: '''
invariant
    truncated@.len() == k_,
    nchunks_ == self.measurement_len,
    forall|j: int| 0 <= j < k_ ==> rc_ok(#[trigger] chunk_of(input@, self.bits as int, j)),
    forall|j: int| 0 <= j < k_ ==> cong(fe_v(#[trigger] truncated@[j]), rc_val(chunk_of(input@, self.bits as int, j), self.last_weight_field)),
'''}, before=[('let nall_ = chunks_count(', '''
    let ghost b = self.bits as int; let ghost n = self.measurement_len as int;
    assert(((b * (n + 1)) + b - 1) / b == n + 1) by {
        assert(b * (n + 1) == (n + 1) * b) by (nonlinear_arith);
        lemma_fundamental_div_mod_converse(b * (n + 1) + b - 1, b, n + 1, b - 1);
    }
'''), ('let chunk = &chunk_at(', 'lemma_chunk_idx(input@.len() as int, self.bits as int, k_ as int);'),
              ('truncated.push(', 'assert(chunk@ == chunk_of(input@, self.bits as int, k_ as int));')])
    return u
