"""C07/C08 — encode_fieldvec / decode_fieldvec (src/field.rs) under contract for ANY number of elements (Verus).

The element codec is the abstract boundary (C09 Kani units field*_bytes prove it for the three Montgomery fields): fe_enc(e) is
a byte string of exactly ES() = F::ENCODED_SIZE bytes, fe_dec(chunk) = Some(e) exactly for canonical chunks, and
fe_dec(fe_enc(e)) == Some(e).  `Cursor<&[u8]>` is the abstract `Cur` of unit codec_decode; `read_exact` of n bytes either
returns the next n bytes and advances by n, or fails without a guarantee on the position (std semantics).  Contracts:

  encode_fieldvec(v, bytes): existing bytes untouched, appends fe_enc(v[0]) ++ .. ++ fe_enc(v[n-1]) - exactly n*ES bytes, in order
  decode_fieldvec(count, cursor): no arithmetic overflow or out-of-bounds read for any count (count*ES is never formed; the
        up-front Vec::with_capacity(count) is NOT modelled: count comes from the VDAF instance, not from the wire); Ok exactly when count*ES more bytes
        are available and every ES-byte chunk is canonical; then element k is fe_dec of the k-th chunk and the cursor has advanced
        by exactly count*ES; the input bytes are never modified
  lemma_fieldvec_roundtrip: decoding count = |v| elements from what encode_fieldvec wrote yields v.

Rewrites beyond the listed ones (E4h shims): `input.read_exact(&mut buffer[..F::ENCODED_SIZE])?` + `F::try_from(&buffer[..F::ENCODED_SIZE])`
read through the 64-byte stack buffer; the shim `read_chunk` returns the bytes read (the buffer reuse itself is not modelled);
the `assert!(buffer.len() >= F::ENCODED_SIZE)` becomes the precondition ES() <= 64."""
from vunit import VUnit

F = 'src/field.rs'
PRELUDE = '''
global size_of usize == 8;
pub enum CodecError { Eof, Other }
#[verifier::external_body]
#[derive(Clone, Copy)]
pub struct Fe { _x: u64 }
pub uninterp spec fn ES() -> int;                                   // F::ENCODED_SIZE
pub uninterp spec fn fe_enc(e: Fe) -> Seq<u8>;                      // e.get_encoded()
pub uninterp spec fn fe_dec(chunk: Seq<u8>) -> Option<Fe>;          // F::try_from(chunk)
#[verifier::external_body]
pub broadcast proof fn axiom_elem_codec(e: Fe)
    ensures #[trigger] fe_enc(e).len() == ES(), fe_dec(fe_enc(e)) == Some(e), 0 < ES() <= 64
{}
#[verifier::external_body]
fn enc_size() -> (r: usize) ensures r == ES(), 0 < ES() <= 64 { unimplemented!() }
// elem.encode(bytes): appends the ES-byte encoding
#[verifier::external_body]
fn fe_encode(e: &Fe, bytes: &mut Vec<u8>) -> (r: Result<(), CodecError>) ensures r is Ok, final(bytes)@ == old(bytes)@ + fe_enc(*e) { unimplemented!() }
#[verifier::external_body]
fn fe_try_from(chunk: &Vec<u8>) -> (r: Result<Fe, CodecError>) ensures match fe_dec(chunk@) { Some(e) => r == Ok::<Fe, CodecError>(e), None => r is Err } { unimplemented!() }
// std::io::Cursor<&[u8]>
#[verifier::external_body]
pub struct Cur { _c: u8 }
impl Cur {
    pub uninterp spec fn data(&self) -> Seq<u8>;
    pub uninterp spec fn pos(&self) -> int;
    pub open spec fn wf(&self) -> bool { 0 <= self.pos() <= self.data().len() }
}
// input.read_exact(&mut buffer[..n]) seen through the bytes it delivers
#[verifier::external_body]
fn read_chunk(c: &mut Cur, n: usize) -> (r: Result<Vec<u8>, CodecError>)
    requires old(c).wf(),
    ensures final(c).data() == old(c).data(), final(c).wf(),
            old(c).pos() + n <= old(c).data().len() ==> r is Ok && r->Ok_0@ == old(c).data().subrange(old(c).pos(), old(c).pos() + n) && final(c).pos() == old(c).pos() + n,
            old(c).pos() + n > old(c).data().len() ==> r is Err,
{ unimplemented!() }
// concatenation of the encodings of v[0..n]
pub open spec fn enc_all(v: Seq<Fe>, n: int) -> Seq<u8> decreases n
{ if n <= 0 { Seq::empty() } else { enc_all(v, n - 1) + fe_enc(v[n - 1]) } }
proof fn lemma_enc_all_len(v: Seq<Fe>, n: int)
    requires 0 <= n <= v.len()
    ensures enc_all(v, n).len() == n * ES()
    decreases n
{
    broadcast use axiom_elem_codec;
    if n > 0 { lemma_enc_all_len(v, n - 1); assert((n - 1) * ES() + ES() == n * ES()) by (nonlinear_arith); } else { assert(0 * ES() == 0); }
}
// the k-th ES-byte chunk after position p
pub open spec fn chunk_at(d: Seq<u8>, p: int, k: int) -> Seq<u8> { d.subrange(p + k * ES(), p + (k + 1) * ES()) }
'''

ROUNDTRIP = '''
// the k-th chunk of an encoded vector is the encoding of element k
proof fn lemma_chunk_of_enc(v: Seq<Fe>, n: int, k: int, pre: Seq<u8>, post: Seq<u8>)
    requires 0 <= k < n <= v.len()
    ensures chunk_at(pre + enc_all(v, n) + post, pre.len() as int, k) == fe_enc(v[k])
    decreases n
{
    broadcast use axiom_elem_codec;
    lemma_enc_all_len(v, n); lemma_enc_all_len(v, k); lemma_enc_all_len(v, k + 1);
    assert((k + 1) * ES() == k * ES() + ES()) by (nonlinear_arith);
    if k == n - 1 {
        assert(enc_all(v, n) == enc_all(v, n - 1) + fe_enc(v[n - 1]));
        assert(chunk_at(pre + enc_all(v, n) + post, pre.len() as int, k) =~= fe_enc(v[k]));
    } else {
        lemma_chunk_of_enc(v, n - 1, k, pre, fe_enc(v[n - 1]) + post);
        assert(pre + enc_all(v, n) + post =~= pre + enc_all(v, n - 1) + (fe_enc(v[n - 1]) + post));
    }
}
// ROUND TRIP: any vector that decode_fieldvec's contract allows for the bytes encode_fieldvec wrote IS the encoded vector
proof fn lemma_fieldvec_roundtrip(v: Seq<Fe>, w: Seq<Fe>, pre: Seq<u8>, post: Seq<u8>)
    requires w.len() == v.len(),
             forall|k: int| 0 <= k < w.len() ==> fe_dec(#[trigger] chunk_at(pre + enc_all(v, v.len() as int) + post, pre.len() as int, k)) == Some(w[k]),
    ensures w == v
{
    broadcast use axiom_elem_codec;
    assert forall|k: int| 0 <= k < v.len() implies w[k] == v[k] by {
        lemma_chunk_of_enc(v, v.len() as int, k, pre, post);
        axiom_elem_codec(v[k]);
        assert(fe_dec(chunk_at(pre + enc_all(v, v.len() as int) + post, pre.len() as int, k)) == Some(w[k]));
    }
    assert(w =~= v);
}
'''


def unit():
    u = VUnit('fieldvec_codec', 'encode_fieldvec / decode_fieldvec for any number of elements; round trip')
    u.oracle = {'inject': 'src/codec.rs', 'file': 'codec_oracle.rs', 'test': 'verif_oracle_codec::oracle_fieldvec'}
    u.raw(PRELUDE, 'abstract-codec')
    u.item(F, ['fn encode_fieldvec'], ret='r',
           rewrites=[(r'<F: FieldElement, T: AsRef<\[F\]>>', '', 1), (r'val: T,', 'val: &Vec<Fe>,', 1),
                     (r'for elem in val\.as_ref\(\) \{', 'for k_ in 0..val.len() { let elem = &val[k_];', 1),      # E4c
                     (r'elem\.encode\(bytes\)\?', 'fe_encode(elem, bytes)?', 1)],
           sig='''
ensures
    r is Ok,
    final(bytes)@ == old(bytes)@ + enc_all(val@, val@.len() as int),
''', loops={0: '''
invariant
    bytes@ == old(bytes)@ + enc_all(val@, k_ as int),
'''}, after=[('fe_encode(elem, bytes)?', 'assert(bytes@ =~= old(bytes)@ + enc_all(val@, k_ + 1));')])
    u.item(F, ['fn decode_fieldvec'], ret='r', attrs='#[verifier::loop_isolation(false)]',
           rewrites=[(r'<F: FieldElement>', '', 1), (r'input: &mut Cursor<&\[u8\]>', 'input: &mut Cur', 1), (r'Result<Vec<F>, CodecError>', 'Result<Vec<Fe>, CodecError>', 1),
                     (r'let mut vec = Vec::with_capacity\(count\);', 'let mut vec: Vec<Fe> = Vec::with_capacity(count);', 1),
                     (r'let mut buffer = \[0u8; 64\];', 'let buffer_len_: usize = 64;', 1),
                     (r'assert!\(\s*buffer\.len\(\) >= F::ENCODED_SIZE,\s*"field is too big for buffer"\s*\);', 'assert!(buffer_len_ >= enc_size());', 1),
                     (r'for _ in 0\.\.count \{', 'for k_ in 0..count {', 1),
                     (r'input\.read_exact\(&mut buffer\[\.\.F::ENCODED_SIZE\]\)\?;', 'let chunk_ = read_chunk(input, enc_size())?;', 1),
                     (r'F::try_from\(&buffer\[\.\.F::ENCODED_SIZE\]\)\.map_err\(\|e\| CodecError::Other\(Box::new\(e\)\)\)\?', 'fe_try_from(&chunk_)?', 1)],
           sig='''
requires
    old(input).wf(),
ensures
    final(input).data() == old(input).data(),
    // Ok exactly when count*ES more bytes are there and every chunk is a canonical element encoding
    r is Ok <==> (old(input).pos() + count * ES() <= old(input).data().len()
                  && forall|k: int| 0 <= k < count ==> fe_dec(#[trigger] chunk_at(old(input).data(), old(input).pos(), k)) is Some),
    r is Ok ==> r->Ok_0@.len() == count && final(input).pos() == old(input).pos() + count * ES()
                && forall|k: int| 0 <= k < count ==> fe_dec(#[trigger] chunk_at(old(input).data(), old(input).pos(), k)) == Some(r->Ok_0@[k]),
''', loops={0: '''
invariant
    input.wf(), input.data() == old(input).data(),
    input.pos() == old(input).pos() + k_ * ES(),
    vec@.len() == k_,
    forall|k: int| 0 <= k < k_ ==> fe_dec(#[trigger] chunk_at(old(input).data(), old(input).pos(), k)) == Some(vec@[k]),
'''}, before=[('let chunk_ = read_chunk(', '''
    assert((k_ + 1) * ES() == k_ * ES() + ES()) by (nonlinear_arith);
    assert(k_ * ES() + ES() <= count * ES()) by (nonlinear_arith) requires k_ + 1 <= count, ES() > 0;
    // a failure here refutes the Ok-condition: either the bytes run out or chunk k_ is not canonical
    assert(old(input).data().subrange(input.pos(), input.pos() + ES()) == chunk_at(old(input).data(), old(input).pos(), k_ as int));
'''), ('for k_ in 0..count', 'assert(0 * ES() == 0);'), ('Ok(vec)', 'assert(count * ES() == (count as int) * ES());', -1)])
    u.raw(ROUNDTRIP, 'roundtrip')
    return u
