NOTES = ('Contract-based deductive verification of the real code: Verus on functions extracted mechanically from /repo on every run '
         '(engine/vunit.py; per-function rewrite list and diff in evidence/extract/), Kani on the real crate with injected contract harnesses. '
         'Exit 0 = all obligations discharged, 1 = VIOLATION, 2 = undecided (never an alarm). See DESIGN.md.')

_PENDING = 'not yet built in this framework (work in progress, see DESIGN.md §4)'
NOT_APPLICABLE = {
    'C14': 'quantifies over rayon thread schedules; Kani has no threads and Verus cannot see rayon; the reachable fragment (commutativity/associativity of vector addition) is decided under C13 (DESIGN.md §5)',
    'C15': 'statement about exact probability laws over all random tapes; neither verifier has a probabilistic logic and the num-bigint/num-rational arithmetic would be all assumed contracts (DESIGN.md §5)',
}


TEXT = {
    'C01': {
        'text': 'Partial: share reconstruction, multi-proof slicing, declared lengths. Kani proves on the real generic Prio3 code (harness-defined Types, recording XOF, Prng::get as its contract stub) that the leader shares equal the encoded measurement / proof minus the helper expansions and that verify_init gives proof p exactly its own block of the proof share and of the query randomness; Verus proves the circuits\' declared lengths and constructor-derived parameters. Aggregation is covered by C13.',
        'note': 'NOT decided: that honest proofs verify (FLP completeness is a polynomial identity over NTT code), encode_measurement/decode_result of each type, end-to-end through the wire encodings.',
        'technique': 'contract harnesses on the real generic code with contract stubs at the PRNG and Type boundaries (Kani) + extracted constructors/length accessors (Verus)',
        'design_ref': 'DESIGN.md §4 C01, §8.4',
    },
    'C17': {
        'text': 'Partial, bounded in the number of aggregators. Kani proves on the real Prio3::shard_with_random that every helper share is {seed[, blind]} taken verbatim from the sharding randomness (a function of the randomness only, for every measurement) and that the leader share is the encoding minus a measurement-independent mask; Verus proves for Poplar1 that the helper\'s correlated-randomness shares are verbatim stream elements.',
        'note': 'NOT decided: Poplar1 IDPF keys (bitvec), byte-wise comparison of encoded shares. Kani allocator-model checks in __rust_dealloc are discounted for these harnesses (DESIGN 8.4b).',
        'technique': 'postconditions over symbolic randomness and measurement on the real generic code (Kani) + extracted function contracts (Verus)',
        'design_ref': 'DESIGN.md §4 C17',
    },
    'C11': {
        'text': 'Partial: the fixed-key AES seed stream offset logic, for every 64-bit block counter and boundary in-block offsets, bounded in read length (Kani); Prng::get / from_seed_stream / into_new_field for every buffer length, byte offset, number of rejections and refills over an abstract seed stream (Verus, loop invariants, no bound): the first accepted chunk is returned and nothing of the stream is skipped or repeated.',
        'note': 'The thorough tier repeats the Prng::get contract on the compiled code with Kani (bounded: 16/20-byte look-ahead buffers). Termination of rejection sampling is not claimed. NOT decided: absorb order of the hash-based XOF constructors, Field255 sampling.',
        'technique': 'function contract on the real fill() with the block hash uninterpreted (Kani/CBMC) + loop invariants on the extracted Prng::get over an abstract stream (Verus)',
        'design_ref': 'DESIGN.md §4 C11',
    },
    'C06': {
        'text': 'Key generation and evaluation from the root, every tree depth; caches excluded. Verus proves on the extracted generate_correction_word and eval_next (abstract seeds with xor, XOF expansion uninterpreted, values in the abstract field) that they compute the specified construction and, as a theorem over the two contracts, that on the input path the parties keep differing control bits and their shares sum to the programmed value, that leaving the path makes keys and control bits equal with shares summing to zero, and that off the path this is preserved; Idpf::gen_with_random and Idpf::eval_from_node (whole functions, level loops included) are proved to iterate exactly that construction, and theorem_idpf_end_to_end composes them: for every depth, input, value vector and prefix the shares sum to the programmed value on the path and to zero off it. Kani proves the seed helpers, the value select/negate contracts and the off-path step on the compiled code (all seeds/bits/values symbolic).',
        'note': 'Cache keys: NormalizedBitVec is proved canonical with key equality == equality of the bit sequences under ASSUMED contracts for bitvec storage (unit norm_bitvec, with an executable contract on the real caches). NOT decided: that Idpf::eval resumes correctly from a cached node (lookup loop and eviction are not under contract), bitvec storage of IdpfInput, the public-share codec; inner and leaf values are modelled as one abstract field type.',
        'technique': 'function contracts against spec functions + a level theorem over the contracts on extracted real code (Verus); function contracts on compiled code with uninterpreted XOF expansion (Kani/CBMC)',
        'design_ref': 'DESIGN.md §4 C06',
    },
    'C10': {
        'text': 'Partial: the forward transform and the array kernels around it. Verus proves on the extracted ntt_internal, for any field meeting the field-layer contract, every size 2^d within the root table and both twists, that the butterfly network computes the DFT: outp[i] == sum_m inp[m]*(s*w^i)^m mod p for every i (level-by-level loop invariants over a ghost snapshot + machine-checked split/congruence/root lemmas; root-table relations validated numerically each run; bitrev == d-bit reversal discharged by a complete Kani harness). Over that contract ntt_inv is the textbook inverse-transform formula, poly_interpret_eval the value of the inverse-transform polynomial, nth_root_powers the table of powers of the root, and a machine-checked theorem over the forward and inverse contracts (sum exchange + orthogonality of the roots) shows that the inverse transform undoes the forward one and that poly_interpret_eval returns the value of a polynomial of degree < n interpolating the given points at the powers of the root. Verus also proves, for any field and every size: poly_eval_monomial == value of the polynomial (Horner == sum a_i x^i), ntt_inv_finish == index reversal + scaling with frame, the in-place interleave of double_evaluations, fp::log2 == ceil(log2), bitrev index range, poly_deg / poly_mul_monomial == coefficient convolution == polynomial product, poly_range_check(a,b)(x) == prod (x-i); ntt_internal reports size and capacity violations as the specified errors, accepts exactly the power-of-two sizes within the root table, and all its indices are in range for every size (memory safety + frame).',
        'note': 'double_evaluations is decided as two extracted fragments plus a theorem over them (split_at_mut glue assumed); poly_mul_lagrange and get_double_evaluations over that contract; poly_eval_lagrange_batched equals the division-free Lagrange form at every point, nodes included, and a machine-checked product identity at the roots of unity (induction on the size, no division) shows that this form is the value of the interpolant. NOT decided: extension to a power of two (DESIGN.md section 4 C10).',
        'technique': 'function contracts with loop invariants, ghost snapshots and algebra lemmas on extracted real code over an abstract field (Verus); cross-engine contract for bitrev (Kani, complete)',
        'design_ref': 'DESIGN.md §4 C10',
    },
    'C09': {
        'text': 'Proof. Every function of fp/ops.rs that field arithmetic is built from carries a machine-checked contract against integers mod p '
                '(add/sub/neg/modp for all three word sizes; single-word Montgomery mul for FP32/FP64 and split-word mul for FP128: r<p and r*R == x*y mod p for ALL operands; '
                'pow (square-and-multiply loop invariant), inv, montgomery, residue against the residue-class view val(a) = a*R^-1 mod p: pow(x,e) denotes val(x)^e, residue(montgomery(x)) = x mod p), discharged by Verus on the '
                'function text extracted from /repo on every run; the field layer is discharged too: the make_field! bodies of the three fields (operators, inv, pow, integer conversions, equality, zero/one/half, the root table: root(0)=1, root(1)=-1, root(l)^2=root(l-1)) by Verus against the residue-class view under the invariant x.0 < p, and the byte conversions full-domain by Kani '
                'on the real crate with mul replaced by its contract.  All carry/borrow paths are covered by the SMT proof, which random tests reach with probability 2^-32..2^-64.',
        'note': 'Trusted: std overflowing_add/sub semantics (assume_specification), From<bool>; Field255 limb arithmetic (fiat-crypto) is not verified; primality of the moduli is assumed where "inverse" is claimed. Extraction rewrites are listed per function in evidence/extract/.',
        'technique': 'function contracts (requires/ensures) on extracted real code, Verus/Z3; full-domain Kani harnesses with contract stubs',
        'design_ref': 'DESIGN.md §4 C09',
    },
    'C13': {
        'text': 'Proof for the algebra, bounded for the vector plumbing. Field addition is proved commutative/associative with zero identity for ALL elements of the 32/64/128-bit fields; '
                'merge_vector / add_assign_vector / AggregateShare::{merge,accumulate} / Aggregator::aggregate carry the contract "mismatch => Err and accumulator unchanged, else pointwise sum" for ANY length (Verus, extracted text); Poplar1FieldVec::{merge,accumulate} and the generic instantiations carry it '
                'on the real code at vector length <= 3 (Kani, itemised as bounded); order/grouping/batch-split independence for any length and any partition is then a machine-checked Verus lemma over sequences.',
        'note': 'Field255 element addition is fiat-crypto (assumed). Bounded stand-ins are listed in evidence coverage.bounded[] and are not counted in obligations/discharged.',
        'technique': 'function contracts with frame conditions (Kani harnesses on the real crate) + Verus sequence lemmas over the contracts',
        'design_ref': 'DESIGN.md §4 C13',
    },
    'C07': {
        'text': 'Partial, bounded where stated. Verus proves the three length-prefixed vector encoders for any item type and count (prefix == bytes produced, overflow => error) and the vector decoders for any bytes and length field (exact chain of item decodings, cursor advanced by exactly the vector, no spurious refusal), with the vector round trip as a lemma over the two contracts. Contracts "decode is total; an accepted string re-encodes to itself; encoded_len() equals the bytes produced; value round-trips" are discharged by Kani on the real codecs: integers and length-prefixed vectors (prefix full-domain), field elements of the three Montgomery fields (canonical range, mask, little-endian; complete), Prio3 messages and Poplar1 sketch/state tags at one instance each (bounded; the structure is instance-independent), Poplar1AggregationParam::encoded_len for every level (complete).',
        'note': 'Not decided: Field255-bearing messages, IdpfPublicShare bit packing, ping-pong/Prio2 (see C12, C19). Message-level harnesses use the identity instance of the Montgomery abstraction.',
        'technique': 'assume-guarantee contract harnesses on the real codecs (Kani/CBMC), symbolic byte strings + function contracts with loop invariants on the extracted vector encoders and decoders, round-trip lemma (Verus)',
        'design_ref': 'DESIGN.md §4 C07',
    },
    'C08': {
        'text': 'Partial. Verus proves the generic vector decoders (decode_fixlen_items, decode_u8/u16/u32_items) free of overflow and out-of-bounds access for every input, position and length field, with the length validated before any item is read (no bound). Otherwise bounded in input size: for the decoders listed in the evidence every panic/overflow/out-of-bounds/unwrap obligation that Kani generates is discharged for arbitrary bytes up to the stated size with all header fields full-domain (every usize length, every tag byte, every aggregator id); over-long length prefixes are rejected before any allocation. One known finding: decode_fixlen_items does not terminate for a zero-width item type.',
        'note': 'Bitvec- and Field255-touching decoders are out of reach (DESIGN.md R3).',
        'technique': 'verifier-generated safety obligations of the decoder bodies (Kani/CBMC) under symbolic input bytes + function contracts with loop invariants on the extracted vector decoders (Verus)',
        'design_ref': 'DESIGN.md §4 C08',
    },
    'C16': {
        'text': 'Partial. Contracts "Ok exactly on the documented domain, Err otherwise, never panic/overflow, and a returned instance is usable" are proved by Verus (unbounded) for Histogram::new, Sum::new, SumVec::new, MultihotCountVec::new, L1BoundSum::new (any field modulus, F::Integer = u128 and u64), Prio2::new, check_num_aggregators and the length accessors of Histogram/SumVec/MultihotCountVec/Sum, and by Kani (full-domain scalars) for Prio3::new, role_try_from, random_size and the wrong-length / wrong-count guards of shard_with_random and verifier_shares_to_message. Defects found this way were repaired (Histogram out-of-range bucket, Prio2::new overflow, u8 share counter, L1BoundSum::new measurement_len+1 overflow).',
        'note': 'Not covered: DP constructors, Poplar1 operations (bitvec), FLP prove/query length guards. Known finding: chunk lengths near usize::MAX are accepted by Histogram/SumVec/MultihotCountVec::new although their length accessors then overflow.',
        'technique': 'constructor/accessor contracts on extracted real code (Verus) + guard contracts on real generic code over a nondeterministic Type (Kani)',
        'design_ref': 'DESIGN.md §4 C16',
    },
    'C05': {
        'text': 'Partial: length exactness, refusals and the gadget-polynomial construction. Verus proves on the extracted gadgets (Mul, ParallelSum over an abstract inner gadget, the two gadget checks) that eval_poly yields the gadget applied point by point to the wire-polynomial values (Mul, via the proved contract of poly_mul_lagrange) and the in-order sum over every chunk (ParallelSum), for any number of calls and chunks. Verus proves, for all parameters, that the declared proof/verifier/randomness lengths of Histogram, SumVec, MultihotCountVec, L1BoundSum and Sum equal what prove/query construct (arity + gadget_poly_len(degree, wire_poly_len(calls)), 1 + sum(arity+1), sum of arities), using the real helper functions of flp.rs. Kani proves on the real provided methods Flp::query/decide, instantiated with a harness-defined circuit, that query refuses any randomness r with r^wire_poly_len(calls) == 1 before a gadget polynomial is evaluated (gadget call counts 1,2,3,4,8; every r), that wrong lengths are refused before the guard, and the decision rule of decide().',
        'note': 'Completeness, soundness and share-linearity are polynomial-identity statements over NTT/Lagrange code: not decided by this family here (DESIGN.md §4 C05/C10). Field multiplication is seen through its contract (memoised stub), so a CBMC model of a refusal failure is replayed through the executable oracle replay/flp_oracle.rs on the shipped circuits.',
        'technique': 'postconditions on extracted length accessors against spec functions (Verus) + guard contracts on the real generic provided methods over a harness-defined circuit (Kani)',
        'design_ref': 'DESIGN.md §4 C05',
    },
    'C18': {
        'text': 'Partial: transcript binding. Verus proves on the extracted XofTurboShake128::from_seed_slice / Xof::seed_stream (abstract sponge with a ghost absorb log, unbounded in the number and length of parts) that every dst and binder byte is absorbed, in order, behind a length prefix. The real generic Prio3 derivation functions are instantiated with a recording XOF; Kani proves for all keys/contexts(<=2 bytes)/nonces/ids that each derivation absorbs exactly the specified (seed, tag||ctx, binder) transcript, so a derivation that ignores ctx, nonce, aggregator id, num_proofs, algorithm id or a joint-randomness part fails a named obligation.',
        'note': 'Rejection under mismatch follows from the transcripts only under the random-oracle assumption on the XOF. Inline derivations of shard_with_random/verify_init, the binder each Poplar1 call site passes to init_prng, and IDPF bindings are not decided (CBMC cost, bitvec); Poplar1::init_prng and its tag are.',
        'technique': 'ghost transcript (recording Xof implementation) + postconditions on the real derive_* functions (Kani); ghost absorb log + loop invariants on the extracted XOF constructors (Verus)',
        'design_ref': 'DESIGN.md §4 C18',
    },
    'C02': {
        'text': 'Partial: deterministic rejection guards. Verus proves on the extracted Prio3::verifier_shares_to_message, for ANY number of shares, proofs and verifier length over an abstract FLP type, that a message is produced exactly when the share count and every share length are right and every proof of the summed verifier is decided true, with the seed bound to all joint-randomness parts in order. Kani proves on the real Prio3 aggregator code, for every Type meeting the Type contract, the checks the soundness argument relies on (share count and length, every proof decided, seed recomputed from all parts, full-seed comparison, no output share on mismatch). Verus proves that the constructors of SumVec/MultihotCountVec/L1BoundSum provision ceil(encoded length / chunk_length) range-check gadget calls, i.e. no chunk of the encoded input (incl. the digits of a claimed norm or weight) escapes the bit check.',
        'note': 'The soundness error of the proof system is probabilistic and not decided; validity-circuit algebra is not covered.',
        'technique': 'guard contracts on real generic code over a nondeterministic Type implementation (Kani) + function contracts with loop invariants on the extracted combiner and constructors (Verus)',
        'design_ref': 'DESIGN.md §4 C02',
    },
    'C19': {
        'text': 'Partial: Prio2 parameter and packing arithmetic and the query-point exclusion. Verus proves Prio2::new (exact acceptance domain, no overflow), proof_length, the single-use rule, and that choose_eval_at never returns one of the 2N interpolation nodes (r^(2*next_pow2(input_len+1)) != 1 for every PRNG output stream) over the proved FP32::pow contract and the make_field! bodies of FieldPrio2::{pow,one,eq}; FieldPrio2 arithmetic is covered by C09. Kani proves on the real generate_verification_message (dimensions 1 and 2, interpolation as a recording contract stub) which points f, g and h are interpolated through - all 2n of them for h - at which query point and in which order, and that is_valid_share decides (f1+f2)(g1+g2) == h1+h2 on all components.',
        'note': 'The Prio2 message codecs and the wrong-length / wrong-role guards are decided by Kani (bounded lengths). Acceptance of 0/1 vectors and rejection of others (soundness) is not decided. Termination of the rejection loop in choose_eval_at is probabilistic and not proved.',
        'technique': 'function contracts on extracted real code (Verus) + codec/guard contract harnesses on the real code (Kani)',
        'design_ref': 'DESIGN.md §4 C19',
    },
    'C20': {
        'text': 'Proof, with IdpfInput abstracted to a bit string with prefix(), len() and a strict total order. The single-use rule of Prio3 and Prio2 is proved for all histories (Verus). For Poplar1, Verus proves on the extracted is_agg_param_valid, for every history, level and candidate set, that the result is exactly: empty history, or strictly deeper than the MOST RECENT parameter and every prefix extends one of its candidates (IdpfInput::prefix uninterpreted, BTreeSet as a set); Kani additionally proves on the compiled function on the real is_agg_param_valid that a non-empty history admits a parameter only if its level is strictly greater than the MOST RECENT one (every u16 level, histories of up to 3 parameters with empty candidate sets: bounded) and that an empty history admits everything.',
        'note': 'try_from_prefixes is proved (Verus) to accept exactly non-empty, same-length (1..65536 bits), strictly increasing prefix lists whose count fits u32. IdpfInput::prefix (bitvec slicing) is an assumed uninterpreted function and the Ord/Eq of IdpfInput an assumed strict total order.',
        'technique': 'function contracts with a loop invariant on extracted real code (Verus) + contract harness on the real function (Kani)',
        'design_ref': 'DESIGN.md §4 C20',
    },
    'C12': {
        'text': 'Per-transition contracts, bounded in message size. The ping-pong routines are generic over the aggregator; they are verified against a harness-defined aggregator whose verify_init/verify_next/combiner answers are arbitrary (any round count, any failure) and which records what it is handed, so the result holds for every aggregator implementation, including the share-order clause that no shipped VDAF can observe. Each of leader_initialized, helper_initialized, continued, evaluate and the continuation codec carries the full state-machine contract (refusals, order, exact values, no output share on error, evaluate is pure).',
        'note': 'Messages and shares are <= 2 bytes in the harness (the routines never inspect them). Whole-exchange equivalence with a broadcast execution is the composition of the per-transition contracts and is not mechanised.',
        'technique': 'assume-guarantee contracts on real generic code instantiated with a recording nondeterministic trait implementation (Kani)',
        'design_ref': 'DESIGN.md §4 C12',
    },
    'C04': {
        'text': 'Partial: deterministic guards and the sketch algebra. Kani proves on the real Poplar1 code the formula of finish_sketch (incl. the leader/helper asymmetry), the zero-test and length guards of next_message, the share-count/field-type guards of verifier_shares_to_message and the (state, message) variant matching of verify_next (output share only from RoundTwo + Done), and that eval_and_sketch draws one element of a single, fully bound verification-randomness stream per candidate prefix. Verus proves, over those contracts, that the honest sketch sums to zero and that a programmed value d != 0,1 leaves the residue (d^2-d) r^2.',
        'note': 'Rejection of every malformed vector holds only up to the Schwartz-Zippel error: probabilistic, not decided. IdpfPublicShare canonical decoding touches bitvec and is not covered.',
        'technique': 'function contracts on real code (Kani) + algebraic lemmas over the contracts (Verus nonlinear arithmetic)',
        'design_ref': 'DESIGN.md §4 C04',
    },
    'C03': {
        'text': 'Partial: the honest-case algebra and arithmetic safety. The two-round sketch accepts honest one-hot and all-zero vectors for ANY correlated randomness (Verus lemma over the finish_sketch/next_message contracts that Kani proves on the real code); Poplar1AggregationParam length arithmetic is exact for every u16 level. Verus proves on the extracted text (abstract field, all levels) that the client consumes the correlated-randomness streams three elements per level and that verify_init fast-forwards exactly 3*level elements for every u16 level, so both sides read the same (a,b,c); the share formulas of compute_next_corr_shares, finish_sketch and next_message hold for any field. A u16 overflow in that fast-forward (levels > 21845) was found and repaired.',
        'note': 'End-to-end correctness over all levels/prefix sets and the heavy-hitters driver depend on IDPF evaluation over bitvec inputs: not decided (DESIGN.md R3). See C06 for the per-level IDPF step.',
        'technique': 'algebraic lemmas over function contracts (Verus) + contract harnesses on real code (Kani)',
        'design_ref': 'DESIGN.md §4 C03',
    },
}
