"""Which units decide which property (DESIGN §4).  quick = every change; thorough adds to quick."""

GLOBAL_TRUSTED = [
    'rustc/LLVM; Verus 0.2026.09.13 + Z3; Kani 0.68 + CBMC 6.11 + CaDiCaL',
    'extraction rewrites listed per function in evidence/extract/<unit>.json (monomorphisation by token substitution; num_traits by-ref shims -> inherent methods; as_() -> as)',
    'machine arithmetic is modelled exactly (Verus checks every overflow, Kani is bit-precise); nothing is treated as mathematical',
]

KC = ['common.rs', 'field_util.rs']

PROPS = {
    'C09': {
        'level': 'proof',
        'explanation': 'Contracts on the real fp/ops.rs arithmetic (Verus, unbounded, all operands) and on the field-layer byte conversions (Kani, full domain).',
        'trusted': ['u{32,64,128}::overflowing_add/sub std semantics (assume_specification)',
                    'Field255 limb arithmetic = fiat-crypto (not verified here)'],
        'assumptions': [],
        'quick': {
            'verus': [('fp_ops', 'unit', 32), ('fp_ops', 'unit', 64)],
            'kani': [{'files': KC + ['c09_field.rs']}],
        },
        'thorough': {},
    },
    'C13': {
        'level': 'proof',
        'explanation': 'Element-level group laws proved full-domain (Kani) and from the add contract (Verus fp_ops); pointwise merge/accumulate contracts incl. frame on error (Kani, bounded vector length, listed under bounded[]); vector/batch-level commutativity, associativity, identity and batch-split independence for ANY length and ANY batch partition are Verus lemmas over sequences (c13_seq).',
        'trusted': ['Field255 element addition = fiat-crypto (assumed commutative/associative)',
                    'induction from the bounded pointwise contract (len<=3) to arbitrary length is by the shape of the loop (zip over both slices), not mechanised'],
        'quick': {
            'verus': [('c13_seq', 'unit'), ('fp_ops', 'unit', 32), ('fp_ops', 'unit', 64)],
            'kani': [{'files': KC + ['c13_field.rs', 'c13_vdaf.rs', 'c13_poplar1.rs']}],
        },
        'thorough': {},
    },
    'C07': {
        'level': 'other',
        'explanation': 'Decided: scalar/field-element/seed/length-prefixed-vector codecs (round trip, canonicity, exact length, rejection of non-canonical forms) and the structural codec contract of Prio3 and Poplar1 messages at one instance each (bounded, listed); encoded_len of Poplar1AggregationParam for every level. Not decided here: messages containing Field255 elements (fiat-crypto is intractable for CBMC), IdpfPublicShare bit packing (bitvec), ping-pong and Prio2 messages (see C12/C19).',
        'trusted': ['message-level harnesses use the identity instance of the Montgomery abstraction (harness/common.rs id_stub); the general abstraction is what C09 field*_bytes is proved against',
                    'Field255 byte codec assumed (fiat-crypto)'],
        'quick': {
            'verus': [],
            'kani': [{'files': KC + ['c09_field.rs', 'c07_codec.rs', 'c07_prio3.rs'],
                      'harnesses': ['field32_bytes', 'field64_bytes', 'field128_bytes', 'ints_roundtrip', 'items_encode_roundtrip', 'u8_u16_u32_items_total',
                                    'p3c_input_share_helper', 'p3c_public_share', 'p3c_verifier_share_msg', 'p3c_output_agg_share', 'prio3_bad_agg_id_decode']},
                     {'files': KC + ['f255_util.rs', 'idpf_util.rs', 'c07_codec.rs', 'c07_poplar1.rs'],
                      'harnesses': ['pop_agg_param_encoded_len', 'pop_sketch_state_tags']}],
        },
        'thorough': {
            'kani': [{'files': KC + ['c07_codec.rs', 'c07_prio3.rs'], 'harnesses': ['p3c_input_share_leader', 'p3c_verify_state'], 'timeout': 1500},
                     {'files': KC + ['f255_util.rs', 'idpf_util.rs', 'c07_codec.rs', 'c07_poplar1.rs'], 'harnesses': ['pop_verifier_msg_canon'], 'timeout': 900}],
        },
    },
    'C08': {
        'level': 'other',
        'explanation': 'Decided: every Kani-generated no-panic/no-overflow/in-bounds obligation of the decoders listed, on arbitrary byte strings up to the stated size with header fields full-domain (length prefixes: every usize/u8/u16/u32 value); termination of decode_fixlen_items needs progress of the item decoder (known finding for zero-width items). Not decided: decoders that touch bitvec or Field255.',
        'trusted': [],
        'quick': {
            'verus': [],
            'kani': [{'files': KC + ['c09_field.rs', 'c07_codec.rs', 'c07_prio3.rs'],
                      'harnesses': ['fixlen_items_total', 'u8_u16_u32_items_total', 'ints_roundtrip', 'fixlen_zero_width_item', 'field64_bytes',
                                    'p3c_input_share_helper', 'p3c_verifier_share_msg', 'prio3_bad_agg_id_decode']},
                     {'files': KC + ['f255_util.rs', 'idpf_util.rs', 'c07_codec.rs', 'c07_poplar1.rs'],
                      'harnesses': ['pop_sketch_state_tags', 'pop_agg_param_encoded_len']}],
        },
        'thorough': {
            'kani': [{'files': KC + ['c07_codec.rs', 'c07_prio3.rs'], 'harnesses': ['p3c_input_share_leader', 'p3c_verify_state'], 'timeout': 1500}],
        },
    },
}
