"""Which units decide which property (DESIGN §4).  quick = every change; thorough adds to quick."""

GLOBAL_TRUSTED = [
    'rustc/LLVM; Verus 0.2026.09.13 + Z3; Kani 0.68 + CBMC 6.11 + CaDiCaL',
    'extraction rewrites listed per function in evidence/extract/<unit>.json (monomorphisation by token substitution; num_traits by-ref shims -> inherent methods; as_() -> as)',
    'machine arithmetic is modelled exactly (Verus checks every overflow, Kani is bit-precise); nothing is treated as mathematical',
]

KC = ['common.rs', 'field_util.rs']

PROPS = {
    'C09': {
        'level': 'proof',
        'explanation': 'Contracts on the real fp/ops.rs arithmetic (Verus, unbounded, all operands) and on the field-layer byte conversions (Kani, full domain).',
        'trusted': ['u{32,64,128}::overflowing_add/sub std semantics (assume_specification)',
                    'Field255 limb arithmetic = fiat-crypto (not verified here)'],
        'assumptions': [],
        'quick': {
            'verus': [('fp_ops', 'unit', 32), ('fp_ops', 'unit', 64), ('fp_ops', 'unit', 128), ('fp_mul128', 'unit')],
            'kani': [{'files': KC + ['c09_field.rs']}],
        },
        'thorough': {},
    },
    'C13': {
        'level': 'proof',
        'explanation': 'Element-level group laws proved full-domain (Kani) and from the add contract (Verus fp_ops); pointwise merge/accumulate contracts incl. frame on error (Kani, bounded vector length, listed under bounded[]); vector/batch-level commutativity, associativity, identity and batch-split independence for ANY length and ANY batch partition are Verus lemmas over sequences (c13_seq).',
        'trusted': ['Field255 element addition = fiat-crypto (assumed commutative/associative)',
                    'induction from the bounded pointwise contract (len<=3) to arbitrary length is by the shape of the loop (zip over both slices), not mechanised'],
        'quick': {
            'verus': [('c13_seq', 'unit'), ('fp_ops', 'unit', 32), ('fp_ops', 'unit', 64)],
            'kani': [{'files': KC + ['c13_field.rs', 'c13_vdaf.rs', 'c13_poplar1.rs']}],
        },
        'thorough': {},
    },
    'C07': {
        'level': 'other',
        'explanation': 'Decided: scalar/field-element/seed/length-prefixed-vector codecs (round trip, canonicity, exact length, rejection of non-canonical forms) and the structural codec contract of Prio3 and Poplar1 messages at one instance each (bounded, listed); encoded_len of Poplar1AggregationParam for every level. Not decided here: messages containing Field255 elements (fiat-crypto is intractable for CBMC), IdpfPublicShare bit packing (bitvec), ping-pong and Prio2 messages (see C12/C19).',
        'trusted': ['message-level harnesses use the identity instance of the Montgomery abstraction (harness/common.rs id_stub); the general abstraction is what C09 field*_bytes is proved against',
                    'Field255 byte codec assumed (fiat-crypto)'],
        'quick': {
            'verus': [],
            'kani': [{'files': KC + ['c09_field.rs', 'c07_codec.rs', 'c07_prio3.rs'],
                      'harnesses': ['field32_bytes', 'field64_bytes', 'field128_bytes', 'ints_roundtrip', 'items_encode_roundtrip', 'u8_u16_u32_items_total',
                                    'p3c_input_share_helper', 'p3c_public_share', 'p3c_verifier_share_msg', 'p3c_output_agg_share', 'prio3_bad_agg_id_decode', 'p3c_verify_state_derived_fields']},
                     {'files': KC + ['f255_util.rs', 'idpf_util.rs', 'c07_codec.rs', 'c07_poplar1.rs'],
                      'harnesses': ['pop_agg_param_encoded_len', 'pop_sketch_state_tags', 'pop_agg_param_decode_levels']}],
        },
        'thorough': {
            'kani': [{'files': KC + ['c07_codec.rs', 'c07_prio3.rs'], 'harnesses': ['p3c_input_share_leader', 'p3c_verify_state'], 'timeout': 1500},
                     {'files': KC + ['f255_util.rs', 'idpf_util.rs', 'c07_codec.rs', 'c07_poplar1.rs'], 'harnesses': ['pop_verifier_msg_canon'], 'timeout': 900}],
        },
    },
    'C08': {
        'level': 'other',
        'explanation': 'Decided: every Kani-generated no-panic/no-overflow/in-bounds obligation of the decoders listed, on arbitrary byte strings up to the stated size with header fields full-domain (length prefixes: every usize/u8/u16/u32 value); termination of decode_fixlen_items needs progress of the item decoder (known finding for zero-width items). Not decided: decoders that touch bitvec or Field255.',
        'trusted': [],
        'quick': {
            'verus': [],
            'kani': [{'files': KC + ['c09_field.rs', 'c07_codec.rs', 'c07_prio3.rs'],
                      'harnesses': ['fixlen_items_total', 'u8_u16_u32_items_total', 'ints_roundtrip', 'fixlen_zero_width_item', 'field64_bytes',
                                    'p3c_input_share_helper', 'p3c_verifier_share_msg', 'prio3_bad_agg_id_decode']},
                     {'files': KC + ['f255_util.rs', 'idpf_util.rs', 'c07_codec.rs', 'c07_poplar1.rs'],
                      'harnesses': ['pop_sketch_state_tags', 'pop_agg_param_encoded_len', 'pop_agg_param_decode_levels']}],
        },
        'thorough': {
            'kani': [{'files': KC + ['c07_codec.rs', 'c07_prio3.rs'], 'harnesses': ['p3c_input_share_leader', 'p3c_verify_state'], 'timeout': 1500},
                     {'files': KC + ['f255_util.rs', 'idpf_util.rs', 'c07_codec.rs', 'c07_poplar1.rs'], 'harnesses': ['pop_agg_param_header_total'], 'timeout': 1500}],
        },
    },
    'C16': {
        'level': 'other',
        'explanation': 'Decided (Verus, unbounded): Histogram::new accepts exactly its documented domain and establishes well-formedness; Prio2::new never overflows and accepts exactly the lengths that fit the 2^20 subgroup; check_num_aggregators; all *_len accessors of Histogram/SumVec/MultihotCountVec/Sum compute without overflow on usable instances; Sum::new, SumVec::new, MultihotCountVec::new and L1BoundSum::new (F::Integer = u128 and u64, abstract modulus) return Ok exactly on their documented domain, never panic or overflow on ANY argument, and set bits / last_weight / gadget_calls to floor(log2 max)+1 / max-(2^(bits-1)-1) / ceil(encoded length / chunk_length). Decided (Kani): Prio3::new, role_try_from (every usize id), random_size, wrong randomness length, wrong verifier-share length/count, out-of-range field bytes; Prio3::verify_init on a leader share with a proof share of the wrong length or without the joint-randomness blind its type needs => Err (this panicked on the pinned tree: found and repaired); Prio2::verify_init_with_query_rand on a leader share of the wrong length (shorter than input_len included) => Err; Prio2 role_try_from. Known finding: Histogram/SumVec/MultihotCountVec::new accept chunk lengths for which the length accessors overflow.',
        'trusted': ['usize::next_power_of_two, u32::try_from std semantics (assume_specification / external_body)'],
        'quick': {
            'verus': [('flp_lens', 'unit'), ('flp_lens', 'unit_usable'), ('vdaf_guards', 'unit'), ('flp_new', 'unit', 'u128'), ('flp_new', 'unit', 'u64')],
            'kani': [{'files': KC + ['sym_prio3.rs', 'c16_prio3.rs'],
                      'harnesses': ['p3_role_try_from', 'p3_random_size', 'p3_new_guards', 'p3_shard_wrong_random_len', 'p3_vs2m_share_count_small', 'p3_vs2m_share_len']},
                     {'files': KC + ['sym_prio3.rs', 'c01_prio3.rs'], 'harnesses': ['p3_verify_init_leader_share_guards'], 'timeout': 900},
                     {'files': KC + ['c16_prio2.rs'], 'harnesses': ['prio2_verify_init_short_leader_share', 'prio2_role_try_from'], 'timeout': 900}],
        },
        'thorough': {
            'kani': [{'files': KC + ['sym_prio3.rs', 'c16_prio3.rs'], 'harnesses': ['p3_vs2m_share_count_256', 'p3_vs2m_share_count_258'], 'timeout': 2400},
                     {'files': KC + ['c16_prio2.rs'], 'harnesses': ['prio2_verify_init_wrong_len_il2'], 'timeout': 1500}],
        },
    },
    'C05': {
        'level': 'other',
        'explanation': 'Decided (Verus, unbounded): for Histogram, SumVec, MultihotCountVec and Sum the declared proof_len/verifier_len/prove_rand_len/joint_rand_len equal the expressions Flp::prove/query build from the gadget parameters (arity + gadget_poly_len(degree, wire_poly_len(calls)) with the real wire_poly_len/gadget_poly_len extracted from flp.rs), without overflow on usable instances; the constructors of SumVec/MultihotCountVec/L1BoundSum/Sum derive bits, last_weight and gadget_calls == ceil(encoded input length / chunk_length) (so joint_rand_len and the gadget call count cover every chunk of the input). Decided (Kani, the real provided methods Flp::query / Flp::decide instantiated with a harness-defined one-gadget circuit, any query randomness r, field multiplication seen through its contract): query refuses (Err(Query)) whenever r^wire_poly_len(calls) == 1 and never reaches the evaluation of a gadget polynomial at such a point, for gadgets called 1, 2, 3, 4 (quick) and 8 (thorough) times; wrong input/proof/randomness lengths are refused before the guard; decide() refuses a wrong verifier length and returns true exactly when verifier[0] == 0 and every gadget check matches. Not decided: completeness, soundness, share-linearity of query (polynomial identities over NTT code); that r^n == 1 characterises the interpolation nodes is field theory (assumed).',
        'trusted': ['gadget parameters (arity 2*chunk_length, degree 2, calls gadget_calls) are read off gadget() by hand',
                    'r^n == 1 <=> r is one of the n interpolation nodes (cyclic group of a prime field)'],
        'quick': {'verus': [('flp_lens', 'unit'), ('flp_new', 'unit', 'u128')],
                  'kani': [{'files': KC + ['c05_flp.rs'], 'harnesses': ['flp_query_root_guard_c1', 'flp_query_root_guard_c2', 'flp_query_root_guard_c3', 'flp_query_root_guard_c4', 'flp_query_len_guards', 'flp_decide_guards'], 'timeout': 600}]},
        'thorough': {'kani': [{'files': KC + ['c05_flp.rs'], 'harnesses': ['flp_query_root_guard_c8'], 'timeout': 900}]},
    },
    'C18': {
        'level': 'other',
        'explanation': 'Decided (Kani, real generic Prio3 code instantiated with a recording XOF): the domain-separation tag is [VERSION,0,algorithm id,usage] for every id/usage; derive_query_rands / derive_joint_rand_seed / derive_helper_proofs_share / derive_prove_rands absorb exactly (key or seed, tag||ctx, binder) with ctx, nonce (all 16 bytes), num_proofs, aggregator id and all joint-rand parts in order; verifier_shares_to_message recomputes the seed from all parts. That differing transcripts make verification fail is the random-oracle property of the XOF (assumed). Not decided: the inline derivations inside shard_with_random/verify_init, Poplar1/IDPF bindings.',
        'trusted': ['XOF = random oracle (differing transcripts give independent outputs)'],
        'quick': {'verus': [], 'kani': [{'files': KC + ['sym_prio3.rs', 'c18_prio3.rs', 'c16_prio3.rs'],
                                         'harnesses': ['p3_dst_tag', 'p3_query_rands_transcript', 'p3_joint_rand_seed_transcript', 'p3_helper_proofs_transcript', 'p3_prove_rands_transcript', 'p3_vs2m_decide_all_proofs']}]},
        'thorough': {},
    },
    'C02': {
        'level': 'other',
        'explanation': 'Decided (Kani, real Prio3 code over a nondeterministic Type): the deterministic rejection guards the soundness argument relies on: exactly num_aggregators verifier shares of exactly the declared length or Err; decide() consulted for every proof and any false/Err => Err; joint-randomness seed recomputed from ALL parts in order; verify_next compares ALL seed bytes and releases no output share on mismatch. Decided (Verus): the constructors of SumVec / MultihotCountVec / L1BoundSum set gadget_calls (== joint_rand_len) to ceil(encoded input length / chunk_length), so every chunk of the encoded input - including the digits of a claimed norm or weight - is handed to a range-check gadget call. The soundness error bound itself is probabilistic: not decided.',
        'trusted': ['FLP soundness (probabilistic)'],
        'quick': {'verus': [('flp_new', 'unit', 'u128')], 'kani': [{'files': KC + ['sym_prio3.rs', 'c16_prio3.rs'],
                                         'harnesses': ['p3_vs2m_share_count_small', 'p3_vs2m_share_len', 'p3_vs2m_decide_all_proofs', 'p3_verify_next_seed_compare']}]},
        'thorough': {'kani': [{'files': KC + ['sym_prio3.rs', 'c16_prio3.rs'], 'harnesses': ['p3_vs2m_share_count_256', 'p3_vs2m_share_count_258'], 'timeout': 2400}]},
    },
    'C19': {
        'level': 'other',
        'explanation': 'Decided (Verus): Prio2::new accepts exactly input lengths with 2*next_pow2(n+1) <= 2^20 and never overflows; proof_length(n) == n + 3 + next_pow2(n+1) (data | f0 g0 h0 | packed points); single-use aggregation parameter rule; choose_eval_at never returns one of the 2N interpolation nodes (r^(2*next_pow2(n+1)) != 1 for every PRNG stream), over the FP32::pow contract proved in fp_ops32 and the make_field! bodies of FieldPrio2::{pow, one, eq}. Field arithmetic of FieldPrio2: C09. Not decided: acceptance of 0/1 vectors and rejection of others (polynomial identity / soundness), codecs.',
        'trusted': [],
        'quick': {'verus': [('vdaf_guards', 'unit'), ('prio2_eval', 'unit'), ('fp_ops', 'unit', 32)], 'kani': []},
        'thorough': {},
    },
    'C20': {
        'level': 'other',
        'explanation': 'Decided (Verus): Prio3 and Prio2 is_agg_param_valid(cur, prev) == prev.is_empty() for every history. Decided (Kani, real Poplar1::is_agg_param_valid, every u16 level, histories of 0..3 parameters with empty candidate sets - bounded): an empty history admits every parameter; otherwise the parameter is admitted only if its level is strictly greater than that of the MOST RECENT parameter; try_from_prefixes refuses an empty list. Not decided: the prefix-extension clause (every prefix extends one of the most recent candidates) and prefix-list ordering/dedup validation: they compare bitvec values (out of reach of both engines, DESIGN R3/R4).',
        'trusted': [],
        'quick': {'verus': [('vdaf_guards', 'unit')], 'kani': [{'files': KC + ['c20_poplar1.rs']}]},
        'thorough': {},
    },
    'C12': {
        'level': 'other',
        'explanation': 'Decided (Kani, the real generic ping-pong routines instantiated with a nondeterministic aggregator that records its arguments: any number of rounds, any failure): per-transition contracts of leader_initialized, helper_initialized, continued (both roles), PingPongContinuation::evaluate (pure, repeatable) and the continuation/message codecs: message-kind refusals, combiner called exactly once with shares in aggregator order, continuation carries exactly the VDAF values, no output share on any error path. Not decided: the whole-exchange equivalence with a broadcast run (follows from the per-transition contracts by induction on rounds; not mechanised).',
        'trusted': [],
        'quick': {'verus': [], 'kani': [{'files': KC + ['c12_pingpong.rs'],
                                         'harnesses': ['pp_continued_contract', 'pp_helper_initialized_contract', 'pp_leader_initialized_contract', 'pp_evaluate_contract', 'pp_continuation_codec'], 'timeout': 600}]},
        'thorough': {'kani': [{'files': KC + ['c12_pingpong.rs'], 'harnesses': ['pp_message_codec'], 'timeout': 1500}]},
    },
    'C04': {
        'level': 'other',
        'explanation': 'Decided: (Kani, real code) finish_sketch computes A*z0+B for the leader and adds z0^2-z1-z2 for the helper only; next_message guards (length 1 and non-zero sum => Err; lengths other than 1/3 or mismatched => Err); verifier_shares_to_message requires exactly two shares of the same field; verify_next accepts only the four matching (state, message) pairs and releases an output share only from RoundTwo+Done. (Verus) over these contracts: an honest one-hot sketch sums to zero, and a programmed value d leaves the residue (d^2-d)*r^2. Not decided: that every non-one-hot or mis-authenticated vector is rejected except with small probability (Schwartz-Zippel), IDPF public-share canonical decoding (bitvec).',
        'trusted': ['finish_sketch harness uses the memoised contract stub for Field64 multiplication', 'unit poplar1_sketch: abstract field Fe (operator contracts = C09 field layer), Prng::get as an element stream with a cursor (C11), merge_vector contract (C13 Kani units)'],
        'quick': {'verus': [('sketch_lemma', 'unit'), ('poplar1_sketch', 'unit')],
                  'kani': [{'files': KC + ['f255_util.rs', 'c04_poplar1.rs'], 'harnesses': ['pop_finish_sketch_formula', 'pop_next_message_guards', 'pop_vs2m_guards', 'pop_verify_next_variants'], 'timeout': 600}]},
        'thorough': {'kani': [{'files': KC + ['f255_util.rs', 'c04_poplar1.rs'], 'harnesses': ['pop_corr_shares_formula'], 'timeout': 2400}]},
    },
    'C03': {
        'level': 'other',
        'explanation': 'Decided: the honest-case sketch identity (Verus lemma over the finish_sketch / correlated-randomness contracts: for a one-hot 0/1 vector with the programmed authenticator the two verifier shares sum to zero, and likewise for the all-zero vector), the finish_sketch and next_message contracts those lemmas are stated over (Kani, real code), and exact-length / no-overflow arithmetic of Poplar1AggregationParam::encoded_len for every u16 level. Decided (Verus, abstract field, extracted text, unbounded): compute_next_corr_shares consumes exactly three elements of each correlated-randomness stream per level and its shares reconstruct A = -2a+auth, B = a^2+b-a*auth+c; the fast-forward loop of verify_init (fragment lifted verbatim) skips exactly 3*level elements for EVERY u16 level without overflow - so client and aggregator read (a,b,c) of level l at stream offsets [3l,3l+3); finish_sketch and next_message formulas for any field. Not decided: IDPF path correctness over all levels (C06 per level), composition over prefix sets and the heavy-hitters driver (bitvec).',
        'trusted': [],
        'quick': {'verus': [('sketch_lemma', 'unit'), ('poplar1_sketch', 'unit')],
                  'kani': [{'files': KC + ['f255_util.rs', 'idpf_util.rs', 'c07_codec.rs', 'c07_poplar1.rs', 'c04_poplar1.rs'], 'harnesses': ['pop_finish_sketch_formula', 'pop_next_message_guards', 'pop_agg_param_encoded_len'], 'timeout': 600}]},
        'thorough': {'kani': [{'files': KC + ['f255_util.rs', 'c04_poplar1.rs'], 'harnesses': ['pop_corr_shares_formula'], 'timeout': 2400}]},
    },
    'C10': {
        'level': 'other',
        'explanation': 'Decided (Verus, abstract field = any field meeting the C09 operator contracts, extracted text, all sizes): poly_eval_monomial returns the value of the polynomial at the point (Horner recursion, proved equal to sum a_i x^i) for every length incl. the empty polynomial; ntt_inv_finish is exactly the index reversal i -> (size-i) mod size with scaling by size_inv and leaves elements beyond `size` untouched; the interleave loop of double_evaluations (fragment) writes evaluations[k] to 2k and the shifted-transform half to 2k+1 without destroying a value still to be read; fp::log2 is the ceiling logarithm; bitrev yields a d-bit index; ntt_internal (whole function) reports OutputTooSmall / SizeTooLarge / SizeInvalid exactly as specified and returns Ok exactly for power-of-two sizes within the root table and the output buffer, every index of the bit-reversal copy and of every butterfly is in range for EVERY size, nothing beyond `size` is written. NOT decided: that the butterfly network of ntt_internal computes the DFT (forward transform == evaluation at powers of the root), barycentric evaluation, extension to a power of two, poly_mul_lagrange. A change inside a butterfly or in poly_eval_lagrange_batched is NOT detected by this check.',
        'trusted': ['abstract field Fe: operator contracts of the field layer (C09)', 'u128::leading_zeros, usize::reverse_bits std semantics (assume_specification)', '64-bit usize', 'E3c: slice parameters are verified as Vec parameters (same index/len operations)'],
        'quick': {'verus': [('poly_kernels', 'unit'), ('poly_kernels', 'unit_ntt')], 'kani': []},
        'thorough': {},
    },
}
