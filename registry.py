"""Which units decide which property (DESIGN §4).  quick = every change; thorough adds to quick."""

GLOBAL_TRUSTED = [
    'rustc/LLVM; Verus 0.2026.09.13 + Z3; Kani 0.68 + CBMC 6.11 + CaDiCaL',
    'extraction rewrites listed per function in evidence/extract/<unit>.json (monomorphisation by token substitution; num_traits by-ref shims -> inherent methods; as_() -> as)',
    'machine arithmetic is modelled exactly (Verus checks every overflow, Kani is bit-precise); nothing is treated as mathematical',
]

KC = ['common.rs', 'field_util.rs']

PROPS = {
    'C09': {
        'level': 'proof',
        'explanation': 'Contracts on the real fp/ops.rs arithmetic (Verus, unbounded, all operands) and on the field-layer byte conversions (Kani, full domain).',
        'trusted': ['u{32,64,128}::overflowing_add/sub std semantics (assume_specification)',
                    'Field255 limb arithmetic = fiat-crypto (not verified here)'],
        'assumptions': [],
        'quick': {
            'verus': [('fp_ops', 'unit', 32), ('fp_ops', 'unit', 64)],
            'kani': [{'files': KC + ['c09_field.rs']}],
        },
        'thorough': {},
    },
    'C13': {
        'level': 'proof',
        'explanation': 'Element-level group laws proved full-domain (Kani) and from the add contract (Verus fp_ops); pointwise merge/accumulate contracts incl. frame on error (Kani, bounded vector length, listed under bounded[]); vector/batch-level commutativity, associativity, identity and batch-split independence for ANY length and ANY batch partition are Verus lemmas over sequences (c13_seq).',
        'trusted': ['Field255 element addition = fiat-crypto (assumed commutative/associative)',
                    'induction from the bounded pointwise contract (len<=3) to arbitrary length is by the shape of the loop (zip over both slices), not mechanised'],
        'quick': {
            'verus': [('c13_seq', 'unit'), ('fp_ops', 'unit', 32), ('fp_ops', 'unit', 64)],
            'kani': [{'files': KC + ['c13_field.rs', 'c13_vdaf.rs', 'c13_poplar1.rs']}],
        },
        'thorough': {},
    },
}
