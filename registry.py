"""Which units decide which property (DESIGN §4).  quick = every change; thorough adds to quick."""

GLOBAL_TRUSTED = [
    'rustc/LLVM; Verus 0.2026.09.13 + Z3; Kani 0.68 + CBMC 6.11 + CaDiCaL',
    'extraction rewrites listed per function in evidence/extract/<unit>.json (monomorphisation by token substitution; num_traits by-ref shims -> inherent methods; as_() -> as)',
    'machine arithmetic is modelled exactly (Verus checks every overflow, Kani is bit-precise); nothing is treated as mathematical',
]

KC = ['common.rs']

PROPS = {
    'C09': {
        'level': 'proof',
        'explanation': 'Contracts on the real fp/ops.rs arithmetic (Verus, unbounded, all operands) and on the field-layer byte conversions (Kani, full domain).',
        'trusted': ['u{32,64,128}::overflowing_add/sub std semantics (assume_specification)',
                    'Field255 limb arithmetic = fiat-crypto (not verified here)'],
        'assumptions': [],
        'quick': {
            'verus': [('fp_ops', 'unit', 32), ('fp_ops', 'unit', 64)],
            'kani': [{'files': KC + ['c09_field.rs']}],
        },
        'thorough': {},
    },
}
