use vstd::prelude::*;
verus! {
pub assume_specification [u64::overflowing_add] (x: u64, y: u64) -> (r: (u64, bool))
    ensures r.0 as int == (x as int + y as int) % 0x1_0000_0000_0000_0000int,
            r.1 == (x as int + y as int >= 0x1_0000_0000_0000_0000int);
pub assume_specification [u64::overflowing_sub] (x: u64, y: u64) -> (r: (u64, bool))
    ensures r.0 as int == (x as int - y as int) % 0x1_0000_0000_0000_0000int,
            r.1 == ((x as int) < (y as int));
pub const PRIME: u64 = 18446744069414584321;

fn add(x: u64, y: u64) -> (r: u64)
    requires x < PRIME, y < PRIME,
    ensures r < PRIME, r as int == (x as int + y as int) % (PRIME as int),
{
    let (z, carry) = x.overflowing_add(y);
    let (s0, b0) = z.overflowing_sub(PRIME);
    let (_s1, b1) = (carry as u64).overflowing_sub(b0 as u64);
    let mask = 0u64.wrapping_sub(b1 as u64);
    proof {
        assert(mask == 0 || mask == 0xffff_ffff_ffff_ffffu64);
        assert(mask == 0 ==> ((z & mask) | (s0 & !mask)) == s0) by (bit_vector);
        assert(mask == 0xffff_ffff_ffff_ffffu64 ==> ((z & mask) | (s0 & !mask)) == z) by (bit_vector);
    }
    (z & mask) | (s0 & !mask)
}

fn sub(x: u64, y: u64) -> (r: u64)
    requires x < PRIME, y < PRIME,
    ensures r < PRIME, r as int == (x as int - y as int) % (PRIME as int),
{
    let (z0, b0) = x.overflowing_sub(y);
    let mask = 0u64.wrapping_sub(b0 as u64);
    proof {
        assert(mask == 0 ==> (mask & PRIME) == 0) by (bit_vector);
        assert(mask == 0xffff_ffff_ffff_ffffu64 ==> (mask & PRIME) == PRIME) by (bit_vector);
    }
    z0.wrapping_add(mask & PRIME)
}
} // verus!
fn main() {}
