use vstd::prelude::*;
use std::marker::PhantomData;
verus! {

pub uninterp spec fn spec_npo2(x: int) -> int;
pub assume_specification [usize::next_power_of_two] (x: usize) -> (r: usize)
    requires spec_npo2(x as int) <= usize::MAX as int,
    ensures r as int == spec_npo2(x as int), r as int >= x as int, r as int >= 1;
pub enum FlpError { Encode(String), InvalidParameter(String) }

pub struct Histogram<F, S> {
    length: usize,
    chunk_length: usize,
    gadget_calls: usize,
    phantom: PhantomData<(F, S)>,
}

pub closed spec fn wf<F,S>(h: Histogram<F,S>) -> bool {
    &&& 0 < h.length < u32::MAX as usize
    &&& 0 < h.chunk_length
    &&& h.gadget_calls as int == (h.length as int + h.chunk_length as int - 1) / (h.chunk_length as int)
}

impl<F, S> Histogram<F, S> {
    pub fn new(length: usize, chunk_length: usize) -> (r: Result<Self, FlpError>)
        ensures
            (0 < length < u32::MAX as usize && 0 < chunk_length) <==> r is Ok,
            r is Ok ==> wf(r->Ok_0),
    {
        if length >= u32::MAX as usize {
            return Err(FlpError::Encode(
                "invalid length: number of buckets exceeds maximum permitted".to_string(),
            ));
        }
        if length == 0 {
            return Err(FlpError::InvalidParameter(
                "length cannot be zero".to_string(),
            ));
        }
        if chunk_length == 0 {
            return Err(FlpError::InvalidParameter(
                "chunk_length cannot be zero".to_string(),
            ));
        }

        let mut gadget_calls = length / chunk_length;
        if !length.is_multiple_of(chunk_length) {
            gadget_calls += 1;
        }

        Ok(Self {
            length,
            chunk_length,
            gadget_calls,
            phantom: PhantomData,
        })
    }

    fn proof_len(&self) -> (r: usize)
        requires wf(*self), self.chunk_length < 0x4000_0000_0000_0000, spec_npo2(1 + self.gadget_calls as int) <= 0x2_0000_0000
    {
        (self.chunk_length * 2) + 2 * ((1 + self.gadget_calls).next_power_of_two() - 1) + 1
    }
}
} // verus!
fn main() {}
