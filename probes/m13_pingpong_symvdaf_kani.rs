// Design-time probe M13 (see DESIGN.md §2).  Appended verbatim to a scratch copy of
// /repo/src/topology/ping_pong.rs and run with
//   CARGO_NET_OFFLINE=true cargo kani --features experimental -Z stubbing --harness continued_contract
// Result on the pinned tree: VERIFICATION SUCCESSFUL, 837 checks, 87 s; the mutant
// `if !is_leader { verifier_shares.reverse(); }` fails the two share-order assertions.
#[cfg(kani)]
mod verif_pingpong {
    use super::*;
    use crate::codec::{CodecError, Decode, Encode};
    use crate::vdaf::{Aggregatable, Aggregator, Vdaf, VdafError, VerifyTransition};
    use std::io::Cursor;

    #[derive(Clone, Copy, Debug, PartialEq, Eq)]
    pub struct B(u8);
    impl Encode for B {
        fn encode(&self, bytes: &mut Vec<u8>) -> Result<(), CodecError> { bytes.push(self.0); Ok(()) }
        fn encoded_len(&self) -> Option<usize> { Some(1) }
    }
    impl Decode for B {
        fn decode(bytes: &mut Cursor<&[u8]>) -> Result<Self, CodecError> { Ok(B(u8::decode(bytes)?)) }
    }
    impl Aggregatable for B {
        type OutputShare = B;
        fn merge(&mut self, o: &Self) -> Result<(), VdafError> { self.0 = self.0.wrapping_add(o.0); Ok(()) }
        fn accumulate(&mut self, o: &Self) -> Result<(), VdafError> { self.0 = self.0.wrapping_add(o.0); Ok(()) }
    }

    static mut SEEN: [u8; 2] = [0; 2];
    static mut SEEN_N: usize = 0;
    static mut COMBINER_CALLS: usize = 0;

    #[derive(Clone, Debug)]
    pub struct SymVdaf;
    impl Vdaf for SymVdaf {
        type Measurement = ();
        type AggregateResult = ();
        type AggregationParam = B;
        type PublicShare = ();
        type InputShare = B;
        type OutputShare = B;
        type AggregateShare = B;
        fn algorithm_id(&self) -> u32 { 0 }
        fn num_aggregators(&self) -> usize { 2 }
    }
    impl Aggregator<16, 16> for SymVdaf {
        type VerifyState = B;
        type VerifierShare = B;
        type VerifierMessage = B;
        fn verify_init(&self, _: &[u8; 16], _: &[u8], _agg_id: usize, _: &B, _: &[u8; 16], _: &(), _: &B)
            -> Result<(B, B), VdafError> {
            if kani::any() { Err(VdafError::Uncategorized(String::new())) } else { Ok((B(kani::any()), B(kani::any()))) }
        }
        fn verifier_shares_to_message<M: IntoIterator<Item = B>>(&self, _: &[u8], _: &B, inputs: M) -> Result<B, VdafError> {
            unsafe {
                COMBINER_CALLS += 1;
                SEEN_N = 0;
                for s in inputs { if SEEN_N < 2 { SEEN[SEEN_N] = s.0; } SEEN_N += 1; }
            }
            if kani::any() { Err(VdafError::Uncategorized(String::new())) } else { Ok(B(kani::any())) }
        }
        fn verify_next(&self, _: &[u8], _state: B, _msg: B) -> Result<VerifyTransition<Self, 16, 16>, VdafError> {
            let k: u8 = kani::any();
            if k == 0 { Err(VdafError::Uncategorized(String::new())) }
            else if k == 1 { Ok(VerifyTransition::Continue(B(kani::any()), B(kani::any()))) }
            else { Ok(VerifyTransition::Finish(B(kani::any()))) }
        }
        fn aggregate_init(&self, _: &B) -> B { B(0) }
        fn is_agg_param_valid(_: &B, _: &[B]) -> bool { true }
    }

    fn any_bytes() -> Vec<u8> {
        let n: usize = kani::any();
        kani::assume(n <= 2);
        let mut v = Vec::new();
        let a: [u8; 2] = kani::any();
        for i in 0..n { v.push(a[i]); }
        v
    }
    fn any_msg() -> PingPongMessage {
        let k: u8 = kani::any();
        if k == 0 { PingPongMessage::Initialize { verifier_share: any_bytes() } }
        else if k == 1 { PingPongMessage::Continue { verifier_message: any_bytes(), verifier_share: any_bytes() } }
        else { PingPongMessage::Finish { verifier_message: any_bytes() } }
    }

    #[kani::proof]
    #[kani::unwind(4)]
    fn continued_contract() {
        let vdaf = SymVdaf;
        let is_leader: bool = kani::any();
        let host_state = B(kani::any());
        let inbound = any_msg();
        let r = vdaf.continued(b"", is_leader, &B(0), host_state, &inbound);
        let is_init = matches!(inbound, PingPongMessage::Initialize { .. });
        match &r {
            Ok(c) => {
                assert!(!is_init);
                match &c.0 {
                    PingPongContinuationInner::OutputShare(_) => {
                        assert!(matches!(inbound, PingPongMessage::Finish { .. }));
                        assert!(unsafe { COMBINER_CALLS } == 0);
                    }
                    PingPongContinuationInner::Transition { .. } => {
                        assert!(unsafe { COMBINER_CALLS } == 1);
                        assert!(unsafe { SEEN_N } == 2);
                        if let PingPongMessage::Continue { verifier_share, .. } = &inbound {
                            let peer = verifier_share[0];
                            // aggregator order: leader's share first
                            if is_leader { assert!(unsafe { SEEN[1] } == peer); } else { assert!(unsafe { SEEN[0] } == peer); }
                        } else { assert!(false); }
                    }
                }
            }
            Err(_) => {}
        }
        if is_init { assert!(r.is_err()); }
        kani::cover!(r.is_ok());
        kani::cover!(r.is_err());
        core::mem::forget(r);      // R2: never drop an error value under CBMC
        core::mem::forget(inbound);
    }
}
