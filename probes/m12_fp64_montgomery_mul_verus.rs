use vstd::prelude::*;
use vstd::arithmetic::div_mod::*;
use vstd::arithmetic::mul::*;
verus! {

pub assume_specification [u64::overflowing_add] (x: u64, y: u64) -> (r: (u64, bool))
    ensures r.0 as int == (x as int + y as int) % 0x1_0000_0000_0000_0000int,
            r.1 == (x as int + y as int >= 0x1_0000_0000_0000_0000int);
pub assume_specification [u64::overflowing_sub] (x: u64, y: u64) -> (r: (u64, bool))
    ensures r.0 as int == (x as int - y as int) % 0x1_0000_0000_0000_0000int,
            r.1 == ((x as int) < (y as int));

pub const PRIME: u64 = 18446744069414584321;
pub const MU: u64 = 18446744069414584319;
pub open spec fn R() -> int { 0x1_0000_0000_0000_0000int }

fn hi_lo(v: u128) -> (r: (u64, u64))
    ensures r.0 as int == (v as int) / R(), r.1 as int == (v as int) % R(),
{
    assert((v >> 64u128) == v / 0x1_0000_0000_0000_0000u128) by (bit_vector);
    assert((v as u64) as u128 == v % 0x1_0000_0000_0000_0000u128) by (bit_vector);
    ((v >> 64u128) as u64, v as u64)
}

proof fn lemma_mu()
    ensures (MU as int * PRIME as int) % R() == R() - 1
{
    assert((18446744069414584319int * 18446744069414584321int) % 0x1_0000_0000_0000_0000int == 0x1_0000_0000_0000_0000int - 1) by (compute);
}

// (z0 + p * ((mu*z0) % R)) % R == 0  given (mu*p) % R == R-1
proof fn lemma_redc_low(z0: int, mu: int, p: int, r: int)
    requires r > 0, 0 <= z0 < r, (mu * p) % r == r - 1,
    ensures (z0 + p * ((mu * z0) % r)) % r == 0,
{
    let w = (mu * z0) % r;
    // p*w ≡ p*mu*z0 (mod r)
    lemma_mul_mod_noop_right(p, mu * z0, r);            // (p * ((mu*z0)%r)) % r == (p*(mu*z0)) % r
    assert((p * w) % r == (p * (mu * z0)) % r);
    lemma_mul_is_associative(p, mu, z0);
    lemma_mul_is_commutative(p, mu);
    assert(p * (mu * z0) == (mu * p) * z0);
    lemma_mul_mod_noop_left(mu * p, z0, r);             // (((mu*p)%r) * z0) % r == ((mu*p)*z0) % r
    assert(((mu * p) * z0) % r == ((r - 1) * z0) % r);
    // (r-1)*z0 = r*z0 - z0
    lemma_mul_is_distributive_sub_other_way(z0, r, 1);
    assert((r - 1) * z0 == r * z0 - z0);
    // z0 + (p*w) ≡ z0 + r*z0 - z0 = r*z0 ≡ 0
    lemma_add_mod_noop(z0, p * w, r);
    lemma_add_mod_noop(z0, (r - 1) * z0, r);
    assert((z0 + p * w) % r == (z0 + (r - 1) * z0) % r);
    assert(z0 + (r - 1) * z0 == r * z0);
    lemma_mod_multiples_basic(z0, r);
    lemma_mul_is_commutative(r, z0);
}

fn mul(x: u64, y: u64) -> (r: u64)
    requires y < PRIME,
    ensures r < PRIME,
            (r as int * R()) % (PRIME as int) == (x as int * y as int) % (PRIME as int),
{
    let ghost p = PRIME as int;
    let ghost xyi = x as int * y as int;
    proof {
        lemma_mul_upper_bound(x as int, R() - 1, y as int, p - 1);
        lemma_mul_nonnegative(x as int, y as int);
        assert((R() - 1) * (p - 1) < R() * p) by (nonlinear_arith)
            requires 1 <= p, 1 <= R();
        assert(R() * p < 0x1_0000_0000_0000_0000_0000_0000_0000_0000int) by (nonlinear_arith)
            requires p < R();
    }
    let xy: u128 = (x as u128) * (y as u128);
    let (z1, z0) = hi_lo(xy);
    let w = MU.wrapping_mul(z0);
    proof {
        lemma_mul_upper_bound(p, p, w as int, R() - 1);
        lemma_mul_nonnegative(p, w as int);
        assert(p * (R() - 1) < 0x1_0000_0000_0000_0000_0000_0000_0000_0000int) by (nonlinear_arith)
            requires p < R();
    }
    let pw: u128 = (PRIME as u128) * (w as u128);
    let (r1, r0) = hi_lo(pw);
    let (_zero, carry) = z0.overflowing_add(r0);
    let t: u128 = (z1 as u128) + (r1 as u128) + (carry as u128);
    let (cc, z) = hi_lo(t);
    let (s0, b0) = z.overflowing_sub(PRIME);
    let (_s1, b1) = cc.overflowing_sub(b0 as u64);
    let mask = 0u64.wrapping_sub(b1 as u64);
    let res = (z & mask) | (s0 & !mask);
    proof {
        let pwi = p * w as int;
        assert(w as int == (MU as int * z0 as int) % R());
        lemma_fundamental_div_mod(xyi, R());
        lemma_fundamental_div_mod(pwi, R());
        assert(xyi == R() * (z1 as int) + z0 as int);
        assert(pwi == R() * (r1 as int) + r0 as int);
        lemma_mu();
        lemma_redc_low(z0 as int, MU as int, p, R());
        // (z0 + pwi) % R == 0  and pwi % R == r0  => (z0 + r0) % R == 0
        lemma_add_mod_noop_right(z0 as int, pwi, R());
        assert((z0 as int + r0 as int) % R() == 0) by {
            lemma_small_mod(r0 as nat, R() as nat);
            lemma_add_mod_noop_right(z0 as int, r0 as int, R());
        }
        let s = z0 as int + r0 as int;
        assert(s == 0 || s == R()) by {
            if s >= R() { lemma_mod_sub_multiples_vanish(s, R()); lemma_small_mod((s - R()) as nat, R() as nat); }
            else { lemma_small_mod(s as nat, R() as nat); }
        }
        let ti = t as int;
        assert(ti * R() == xyi + pwi) by (nonlinear_arith)
            requires xyi == R() * (z1 as int) + z0 as int, pwi == R() * (r1 as int) + r0 as int,
                     ti == z1 as int + r1 as int + (if carry {1int} else {0int}),
                     (carry ==> z0 as int + r0 as int == R()), (!carry ==> z0 as int + r0 as int == 0);
        assert(xyi + pwi < 2 * p * R()) by (nonlinear_arith)
            requires xyi <= (R() - 1) * (p - 1), pwi <= p * (R() - 1), p > 0;
        assert(ti < 2 * p) by (nonlinear_arith)
            requires ti * R() < 2 * p * R(), R() > 0;
        // case analysis on the final subtraction
        assert(mask == 0 || mask == 0xffff_ffff_ffff_ffffu64);
        assert(mask == 0 ==> ((z & mask) | (s0 & !mask)) == s0) by (bit_vector);
        assert(mask == 0xffff_ffff_ffff_ffffu64 ==> ((z & mask) | (s0 & !mask)) == z) by (bit_vector);
        lemma_fundamental_div_mod(ti, R());
        assert(ti == R() * (cc as int) + z as int);
        assert(cc as int == 0 || cc as int == 1);
        let resi = res as int;
        assert(resi == if ti < p { ti } else { ti - p });
        // congruence
        assert((resi * R()) % p == (ti * R()) % p) by {
            if ti >= p {
                assert(resi * R() == ti * R() - p * R()) by (nonlinear_arith) requires resi == ti - p;
                lemma_mul_is_commutative(p, R());
                lemma_mod_multiples_vanish(-R(), ti * R(), p);
            }
        }
        assert((xyi + pwi) % p == xyi % p) by {
            lemma_mul_is_commutative(p, w as int);
            lemma_mod_multiples_vanish(w as int, xyi, p);
        }
    }
    res
}

} // verus!
fn main() {}
