// Demonstrations of the genuine defects repaired by the "fix:" commits in /repo (see /verif/known_findings.json).
// Run as an integration test (tests/verif_demo.rs) with `--features experimental`:
//   fails (panic / assertion) on the pinned tree 35e5e80, passes on the repaired tree.
use prio::codec::{Decode, Encode};
use prio::idpf::IdpfInput;
use prio::vdaf::poplar1::{Poplar1, Poplar1AggregationParam};
use prio::vdaf::prio3::Prio3;
use prio::vdaf::{Aggregator, Client};

#[test]
fn f1_poplar1_input_share_encoded_len_seed32() {
    // C07: advertised length == bytes produced, for the deployed 32-byte-seed instantiation
    let vdaf = Poplar1::new_turboshake128(8);
    let (_, shares) = vdaf.shard(b"ctx", &IdpfInput::from_bytes(&[0x55]), &[0; 16]).unwrap();
    for s in shares {
        assert_eq!(s.encoded_len().unwrap(), s.get_encoded().unwrap().len());
    }
}

#[test]
fn f2_poplar1_agg_param_level_ffff_from_the_wire() {
    // C08: a level field of 0xFFFF must give a value or an error, not a panic
    let mut bytes = vec![0xFF, 0xFF, 0, 0, 0, 1];
    bytes.extend(vec![0u8; 8192]);
    let r = Poplar1AggregationParam::get_decoded(&bytes);
    if let Ok(p) = r {
        assert_eq!(p.encoded_len().unwrap(), p.get_encoded().unwrap().len());
    }
}

#[test]
fn f3_poplar1_verify_init_deep_level() {
    // C03: honest report, level 21846 (> 65535/3)
    let bits = 21848;
    let vdaf = Poplar1::new_turboshake128(bits);
    let input = IdpfInput::from_bools(&vec![true; bits]);
    let nonce = [7u8; 16];
    let (public_share, input_shares) = vdaf.shard(b"ctx", &input, &nonce).unwrap();
    let agg_param = Poplar1AggregationParam::try_from_prefixes(vec![input.prefix(21846)]).unwrap();
    let vk = [1u8; 32];
    let (_s0, m0) = vdaf.verify_init(&vk, b"ctx", 0, &agg_param, &nonce, &public_share, &input_shares[0]).unwrap();
    let (_s1, m1) = vdaf.verify_init(&vk, b"ctx", 1, &agg_param, &nonce, &public_share, &input_shares[1]).unwrap();
    // honest report must pass the first sketch round
    vdaf.verifier_shares_to_message(b"ctx", &agg_param, [m0, m1]).unwrap();
}

#[test]
fn f5_prio3_256_verifier_shares() {
    // C16/C02: wrong number of shares must be an error, not a panic (and must not be accepted)
    let vdaf = Prio3::new_count(2).unwrap();
    let nonce = [0u8; 16];
    let (public_share, input_shares) = vdaf.shard(b"ctx", &true, &nonce).unwrap();
    let vk = [0u8; 32];
    let (_st, share) = vdaf.verify_init(&vk, b"ctx", 0, &(), &nonce, &public_share, &input_shares[0]).unwrap();
    let many = vec![share; 256];
    assert!(vdaf.verifier_shares_to_message(b"ctx", &(), many).is_err());
}
#[test]
fn f4_histogram_bucket_out_of_range() {
    // C16: a measurement outside the configured range must be an error, not a panic
    let vdaf = Prio3::new_histogram(2, 4, 2).unwrap();
    assert!(vdaf.shard(b"ctx", &4usize, &[0; 16]).is_err());
    assert!(vdaf.shard(b"ctx", &usize::MAX, &[0; 16]).is_err());
    assert!(vdaf.shard(b"ctx", &3usize, &[0; 16]).is_ok());
}
#[test]
fn f9b_prio2_new_extreme_input_len() {
    // C16: a parameter of extreme size must be an error, not an arithmetic-overflow panic
    use prio::vdaf::prio2::Prio2;
    assert!(Prio2::new(usize::MAX).is_err());
    assert!(Prio2::new(usize::MAX / 2).is_err());
    assert!(Prio2::new((1 << 19) - 1).is_ok());
    assert!(Prio2::new(1 << 19).is_err());
}

#[test]
fn f10_l1boundsum_new_len_max() {
    // C16: invalid parameters give an error, not a panic (debug) / a broken instance with zero gadget calls (release)
    use prio::field::Field128;
    use prio::flp::gadgets::{Mul, ParallelSum};
    use prio::flp::types::L1BoundSum;
    use prio::flp::Flp;
    let r = std::panic::catch_unwind(|| L1BoundSum::<Field128, ParallelSum<Field128, Mul>>::new(3, usize::MAX, 4).map(|t| t.input_len()));
    match r {
        Err(_) => panic!("L1BoundSum::new(3, usize::MAX, 4) panicked"),
        Ok(Ok(n)) => panic!("L1BoundSum::new(3, usize::MAX, 4) returned Ok with input_len {}", n),
        Ok(Err(_)) => {}
    }
}

#[test]
fn f6_prio3_verify_init_short_proof_share() {
    use prio::codec::ParameterizedDecode;
    use prio::field::{Field64, FieldElement};
    use prio::vdaf::prio3::{Prio3InputShare, Prio3PublicShare};
    // C16: a leader input share whose proof share has the wrong length must be an error, not a panic
    let vdaf = Prio3::new_count(2).unwrap();
    let public = Prio3PublicShare::get_decoded_with_param(&vdaf, &[]).unwrap();
    let share = Prio3InputShare::Leader { measurement_share: vec![Field64::zero()], proofs_share: vec![Field64::zero(); 2], joint_rand_blind: None };
    let r = std::panic::catch_unwind(|| vdaf.verify_init(&[0u8; 32], b"ctx", 0, &(), &[0u8; 16], &public, &share).is_err());
    assert!(matches!(r, Ok(true)), "verify_init on a leader share with a short proof share: {:?}", r.map_err(|_| "panicked"));
}

#[test]
fn f6b_prio3_verify_init_missing_blind() {
    use prio::field::Field128;
    use prio::vdaf::prio3::Prio3InputShare;
    // C16: a leader input share without the joint-randomness blind its type needs must be an error, not a panic
    let vdaf = Prio3::new_histogram(2, 4, 2).unwrap();
    let nonce = [0u8; 16];
    let (public, shares) = vdaf.shard(b"ctx", &1usize, &nonce).unwrap();
    let broken = match &shares[0] {
        Prio3InputShare::Leader { measurement_share, proofs_share, .. } => Prio3InputShare::<Field128, 32>::Leader { measurement_share: measurement_share.clone(), proofs_share: proofs_share.clone(), joint_rand_blind: None },
        _ => unreachable!(),
    };
    let r = std::panic::catch_unwind(|| vdaf.verify_init(&[0u8; 32], b"ctx", 0, &(), &nonce, &public, &broken).is_err());
    assert!(matches!(r, Ok(true)), "verify_init on a leader share without blind: {:?}", r.map_err(|_| "panicked"));
}
