// Known finding F7 (C08): decode_fixlen_items never terminates for a zero-width item type.
// tests/verif_f7.rs — the decoder thread is still running after 2 s; with any item type that
// consumes >= 1 byte per item the same call returns immediately.
use prio::codec::decode_u8_items;
use std::io::Cursor;
use std::sync::mpsc;
use std::time::Duration;

#[test]
fn f7_zero_width_items_do_not_terminate() {
    let (tx, rx) = mpsc::channel();
    std::thread::spawn(move || {
        let bytes = [1u8, 0u8];
        let r: Result<Vec<()>, _> = decode_u8_items(&(), &mut Cursor::new(&bytes[..]));
        let _ = tx.send(r.is_ok());
    });
    assert!(rx.recv_timeout(Duration::from_secs(2)).is_ok(), "decoder did not terminate within 2 s");
}
