// Known finding F9 (C16): Histogram/SumVec/MultihotCountVec::new accept a chunk_length for which the
// length accessors overflow: the constructor returns Ok, the first use panics (debug) / wraps (release).
// tests/verif_f9a.rs, run with --features experimental.
use prio::vdaf::prio3::Prio3;
use prio::vdaf::Client;

#[test]
fn f9_histogram_huge_chunk_length_is_accepted_then_panics() {
    let vdaf = Prio3::new_histogram(2, 4, usize::MAX / 2 + 1).expect("constructor accepts the parameters");
    let r = std::panic::catch_unwind(|| vdaf.shard(b"ctx", &1usize, &[0; 16]).is_ok());
    assert!(r.is_ok(), "an accepted instance panicked on first use (arithmetic overflow in proof_len/verifier_len)");
}
