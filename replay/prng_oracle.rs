// Executable form of the Prng::get contract (unit prng_get), evaluated on the REAL code: a Prng over a known byte stream is
// drawn n times in a first field, converted with into_new_field at whatever byte offset that leaves, and drawn again past
// at least one refill; every element must equal the reference scan of the SAME byte stream (consecutive ENCODED_SIZE chunks,
// rejected ones skipped, nothing else skipped or repeated).  Injected into src/prng.rs.
#[cfg(test)]
mod verif_oracle_prng {
    use super::*;
    use crate::field::{Field128, Field255, Field64};
    use rand_core::{Infallible, TryRng};

    struct Known { data: Vec<u8>, cursor: usize }
    impl TryRng for Known {
        type Error = Infallible;
        fn try_next_u32(&mut self) -> Result<u32, Infallible> { Ok(0) }
        fn try_next_u64(&mut self) -> Result<u64, Infallible> { Ok(0) }
        fn try_fill_bytes(&mut self, dest: &mut [u8]) -> Result<(), Infallible> {
            for d in dest.iter_mut() { *d = self.data[self.cursor]; self.cursor += 1; }
            Ok(())
        }
    }
    fn stream(seed: u64, len: usize) -> Vec<u8> {
        // xorshift bytes, with a run of 0xff bytes every so often so that rejections occur
        let mut s = seed | 1;
        (0..len).map(|i| { s ^= s << 13; s ^= s >> 7; s ^= s << 17; if (i / 16) % 5 == 3 { 0xff } else { (s >> 24) as u8 } }).collect()
    }
    fn ref_get<F: FieldElement>(data: &[u8], off: &mut usize) -> F {
        loop {
            let chunk = &data[*off..*off + F::ENCODED_SIZE];
            *off += F::ENCODED_SIZE;
            if let ControlFlow::Break(x) = F::from_random_rejection(chunk) { return x; }
        }
    }
    fn run<A: FieldElement, B: FieldElement>(names: &str, seed: u64, n: usize) {
        let data = stream(seed, 1 << 14);
        let mut off = 0usize;
        let mut p: Prng<A, Known> = Prng::from_seed_stream(Known { data: data.clone(), cursor: 0 });
        for k in 0..n {
            let (got, want) = (p.get(), ref_get::<A>(&data, &mut off));
            if got != want { println!("COUNTEREXAMPLE Prng::get {names} seed={seed}: draw {k} of the first field differs from the reference scan of the seed stream (byte offset {off})"); return; }
        }
        let mut q: Prng<B, Known> = p.into_new_field();
        for k in 0..(3 * BUFFER_SIZE_IN_ELEMENTS) {
            let (got, want) = (q.get(), ref_get::<B>(&data, &mut off));
            if got != want { println!("COUNTEREXAMPLE Prng::get {names} seed={seed}: after {n} draws in the first field and into_new_field, draw {k} of the second field differs from the reference scan of the seed stream (byte offset {off}): bytes skipped or repeated at a refill"); return; }
        }
    }
    #[test]
    fn oracle_prng_stream() {
        for seed in [1u64, 2, 3] {
            for n in 0..=(2 * BUFFER_SIZE_IN_ELEMENTS + 1) {
                run::<Field64, Field255>("Field64->Field255", seed, n);
                run::<Field64, Field128>("Field64->Field128", seed, n);
                run::<Field128, Field255>("Field128->Field255", seed, n);
                run::<Field255, Field64>("Field255->Field64", seed, n);
                run::<Field64, Field64>("Field64->Field64", seed, n);
            }
        }
    }
}
