// Executable form of the cache-key contract (unit norm_bitvec), evaluated on the REAL bitvec through the public cache interface: a (seed, control bit) entry
// inserted under a prefix must be returned for an EQUAL prefix whatever bit offset that prefix has in its backing buffer, and must NOT be returned for a
// DIFFERENT prefix of the same length - in particular not for one whose raw storage word coincides once the head offset is ignored.  Injected into src/idpf.rs.
#[cfg(test)]
mod verif_oracle_idpf_cache {
    use super::*;

    fn check(name: &str, cache: &mut dyn IdpfCache) {
        // aligned key [0,1]
        let aligned = bitvec![0, 1];
        cache.insert(&aligned, &([7u8; 16], 1));
        // the SAME bits [0,1] taken at bit offset 1 and at bit offset 5 of larger buffers: must hit
        let b1 = bitvec![1, 0, 1, 1];
        let b5 = bitvec![1, 1, 1, 1, 1, 0, 1, 0];
        for (off, view) in [(1usize, &b1[1..3]), (5usize, &b5[5..7])] {
            match cache.get(view) {
                Some((s, t)) if s == [7u8; 16] && t == 1 => {}
                other => { println!("COUNTEREXAMPLE {}: the entry cached under prefix [0,1] is not found for the same prefix stored at bit offset {} of a larger buffer (got {:?})", name, off, other.map(|x| x.1)); return; }
            }
        }
        // a DIFFERENT prefix [1,0] stored at bit offset 1 (raw word 0b010 shifted: coincides with [0,1] at offset 0 when the head offset is ignored): must miss
        let c1 = bitvec![0, 1, 0, 1];
        if cache.get(&c1[1..3]).is_some() {
            println!("COUNTEREXAMPLE {}: a lookup of prefix [1,0] (stored at bit offset 1 of a larger buffer) returns the entry cached for the DIFFERENT prefix [0,1] - cache keys are compared on raw storage without normalising the head offset, so Idpf::eval would resume from another node", name);
            return;
        }
        // and every other 2-bit prefix at offsets 0..6 must miss as well
        for v in [[false, false], [true, false], [true, true]] {
            for off in 0..6usize {
                let mut buf = bitvec![0; 8];
                buf.set(off, v[0]); buf.set(off + 1, v[1]);
                if cache.get(&buf[off..off + 2]).is_some() {
                    println!("COUNTEREXAMPLE {}: a lookup of prefix {:?} at bit offset {} returns the entry cached for prefix [0,1]", name, v, off);
                    return;
                }
            }
        }
    }

    #[test]
    fn oracle_cache_keys() {
        check("HashMapCache", &mut HashMapCache::new());
        check("RingBufferCache", &mut RingBufferCache::new(4));
    }
}
