// Executable form of the cache-key contract (unit norm_bitvec), evaluated on the REAL bitvec through the public cache interface: a (seed, control bit) entry
// inserted under a prefix must be returned for an EQUAL prefix whatever bit offset that prefix has in its backing buffer, and must NOT be returned for a
// DIFFERENT prefix of the same length - in particular not for one whose raw storage word coincides once the head offset is ignored.  Injected into src/idpf.rs.
#[cfg(test)]
mod verif_oracle_idpf_cache {
    use super::*;

    fn check(name: &str, cache: &mut dyn IdpfCache) {
        // aligned key [0,1]
        let aligned = bitvec![0, 1];
        cache.insert(&aligned, &([7u8; 16], 1));
        // the SAME bits [0,1] taken at bit offset 1 and at bit offset 5 of larger buffers: must hit
        let b1 = bitvec![1, 0, 1, 1];
        let b5 = bitvec![1, 1, 1, 1, 1, 0, 1, 0];
        for (off, view) in [(1usize, &b1[1..3]), (5usize, &b5[5..7])] {
            match cache.get(view) {
                Some((s, t)) if s == [7u8; 16] && t == 1 => {}
                other => { println!("COUNTEREXAMPLE {}: the entry cached under prefix [0,1] is not found for the same prefix stored at bit offset {} of a larger buffer (got {:?})", name, off, other.map(|x| x.1)); return; }
            }
        }
        // a DIFFERENT prefix [1,0] stored at bit offset 1 (raw word 0b010 shifted: coincides with [0,1] at offset 0 when the head offset is ignored): must miss
        let c1 = bitvec![0, 1, 0, 1];
        if cache.get(&c1[1..3]).is_some() {
            println!("COUNTEREXAMPLE {}: a lookup of prefix [1,0] (stored at bit offset 1 of a larger buffer) returns the entry cached for the DIFFERENT prefix [0,1] - cache keys are compared on raw storage without normalising the head offset, so Idpf::eval would resume from another node", name);
            return;
        }
        // and every other 2-bit prefix at offsets 0..6 must miss as well
        for v in [[false, false], [true, false], [true, true]] {
            for off in 0..6usize {
                let mut buf = bitvec![0; 8];
                buf.set(off, v[0]); buf.set(off + 1, v[1]);
                if cache.get(&buf[off..off + 2]).is_some() {
                    println!("COUNTEREXAMPLE {}: a lookup of prefix {:?} at bit offset {} returns the entry cached for prefix [0,1]", name, v, off);
                    return;
                }
            }
        }
    }

    #[test]
    fn oracle_cache_keys() {
        check("HashMapCache", &mut HashMapCache::new());
        check("RingBufferCache", &mut RingBufferCache::new(4));
    }

    // unit idpf_cache: Idpf::eval gives the SAME output share with every cache kind and after every history of earlier evaluations as
    // an evaluation from the root (NoCache), for both parties, at every level including the leaf.
    #[test]
    fn oracle_eval_transparent() {
        use crate::field::{Field255, Field64, FieldElement};
        use crate::vdaf::poplar1::Poplar1IdpfValue;
        let bits = 6usize;
        let input = IdpfInput::from_bools(&[false, true, true, false, true, true]);
        let inner: Vec<Poplar1IdpfValue<Field64>> = (0..bits - 1).map(|i| Poplar1IdpfValue::new([Field64::one(), Field64::from(100 + i as u64)])).collect();
        let leaf = Poplar1IdpfValue::new([Field255::one(), Field255::from(7u64)]);
        let nonce = [9u8; 16];
        let idpf = Idpf::new((), ());
        let (public_share, keys) = idpf.gen(&input, inner, leaf, b"ctx", &nonce).unwrap();
        // all prefixes of lengths 1..=6 over a few bit patterns
        let mut prefixes: Vec<IdpfInput> = Vec::new();
        for len in 1..=bits { for pat in [0b011011u32, 0b011010, 0b010000, 0b111111, 0b000000, 0b011101] {
            let b: Vec<bool> = (0..len).map(|i| (pat >> (bits - 1 - i)) & 1 == 1).collect();
            prefixes.push(IdpfInput::from_bools(&b));
        } }
        for agg_id in 0..2usize {
            let reference: Vec<_> = prefixes.iter().map(|p| idpf.eval(agg_id, &public_share, &keys[agg_id], p, b"ctx", &nonce, &mut NoCache::new()).unwrap()).collect();
            // histories: forward, backward, interleaved long/short; caches of several capacities
            let orders: Vec<Vec<usize>> = vec![(0..prefixes.len()).collect(), (0..prefixes.len()).rev().collect(),
                                               (0..prefixes.len()).map(|i| (i * 7) % prefixes.len()).collect(), (0..prefixes.len()).map(|i| (i * 11 + 5) % prefixes.len()).collect()];
            for order in &orders {
                let mut caches: Vec<(String, Box<dyn IdpfCache>)> = vec![("HashMapCache".into(), Box::new(HashMapCache::new())), ("RingBufferCache(1)".into(), Box::new(RingBufferCache::new(1))),
                    ("RingBufferCache(2)".into(), Box::new(RingBufferCache::new(2))), ("RingBufferCache(5)".into(), Box::new(RingBufferCache::new(5))), ("RingBufferCache(64)".into(), Box::new(RingBufferCache::new(64)))];
                for (name, cache) in caches.iter_mut() {
                    for (step, &k) in order.iter().enumerate() {
                        match idpf.eval(agg_id, &public_share, &keys[agg_id], &prefixes[k], b"ctx", &nonce, cache.as_mut()) {
                            Ok(got) => if got != reference[k] {
                                println!("COUNTEREXAMPLE Idpf::eval (aggregator {}) with {} after {} earlier evaluations: the output share for a {}-bit prefix differs from the evaluation from the root (NoCache) - the result depends on the cache and the history", agg_id, name, step, prefixes[k].len());
                                return;
                            },
                            Err(e) => { println!("COUNTEREXAMPLE Idpf::eval (aggregator {}) with {} fails on a {}-bit prefix: {}", agg_id, name, prefixes[k].len(), e); return; }
                        }
                    }
                }
            }
        }
    }
}
