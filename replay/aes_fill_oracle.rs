// Executable form of the fill contract (unit aes_fill), evaluated on the REAL SeedStreamFixedKeyAes128: the bytes delivered by any
// sequence of reads equal the bytes of one read of the total length (they depend on the stream position only), every byte of every
// read buffer is written, for read patterns that start and end inside blocks.  Injected into src/vdaf/xof.rs.
#[cfg(test)]
mod verif_oracle_aes_fill {
    use super::*;

    fn stream() -> SeedStreamFixedKeyAes128 { XofFixedKeyAes128::seed_stream(&[0x3cu8; 16], &[b"verif dst"], &[b"binder"]) }

    #[test]
    fn oracle_chunking() {
        let patterns: Vec<Vec<usize>> = vec![
            vec![8, 16, 16], vec![1, 16], vec![15, 2], vec![9, 40], vec![0, 5, 0, 33], vec![16, 16], vec![7, 1, 8, 17, 31], vec![17, 17, 17],
            vec![31, 1, 1, 31], vec![3, 13, 16, 48, 5], vec![100, 1, 27], vec![15, 15, 15, 15], vec![1; 40], vec![33, 0, 0, 15, 16],
        ];
        for pat in patterns {
            let total: usize = pat.iter().sum();
            let mut want = vec![0u8; total];
            stream().fill_bytes(&mut want);
            // the same bytes read with two different poison values: an unwritten byte shows up as a difference
            for poison in [0xa5u8, 0x5a] {
                let mut s = stream();
                let mut got = Vec::new();
                for &n in &pat {
                    let mut buf = vec![poison; n];
                    s.fill_bytes(&mut buf);
                    got.extend_from_slice(&buf);
                }
                if got != want {
                    let first = got.iter().zip(want.iter()).position(|(a, b)| a != b).unwrap();
                    println!("COUNTEREXAMPLE SeedStreamFixedKeyAes128: reads of sizes {:?} deliver other bytes than one read of {} bytes (first difference at stream byte {}; read buffers pre-filled with {:#x}): the stream depends on the sizes of the reads", pat, total, first, poison);
                    return;
                }
            }
        }
    }
}
