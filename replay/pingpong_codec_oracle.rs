// Executable form of the PingPongMessage codec contract (unit pingpong_codec), evaluated on the REAL codec: payload lengths 0, 1, 2, 255,
// 256, 70000; the encoding is [tag] ++ be32(len) ++ payload (twice for Continue), encoded_len() is its length, decoding gives the message
// back and consumes everything, every truncation of an encoding is refused, unknown tags are refused.  Injected into src/topology/ping_pong.rs.
#[cfg(test)]
mod verif_oracle_pp_codec {
    use super::*;
    use crate::codec::{Decode, Encode};

    fn payload(n: usize, salt: u8) -> Vec<u8> { (0..n).map(|i| (i as u8).wrapping_mul(13).wrapping_add(salt)).collect() }
    fn want(tag: u8, parts: &[&Vec<u8>]) -> Vec<u8> {
        let mut w = vec![tag];
        for p in parts { w.extend_from_slice(&(p.len() as u32).to_be_bytes()); w.extend_from_slice(p); }
        w
    }

    #[test]
    fn oracle_message_codec() {
        for &a in &[0usize, 1, 2, 255, 256, 70000] { for &b in &[0usize, 1, 3, 257] {
            let (pa, pb) = (payload(a, 1), payload(b, 2));
            let msgs = vec![
                (PingPongMessage::Initialize { verifier_share: pa.clone() }, want(0, &[&pa])),
                (PingPongMessage::Continue { verifier_message: pa.clone(), verifier_share: pb.clone() }, want(1, &[&pa, &pb])),
                (PingPongMessage::Finish { verifier_message: pa.clone() }, want(2, &[&pa])),
            ];
            for (m, w) in msgs {
                let enc = m.get_encoded().unwrap();
                if enc != w { println!("COUNTEREXAMPLE PingPongMessage::{} with payloads of {} / {} bytes does not encode as [tag] ++ be32(len) ++ payload", m.variant(), a, b); return; }
                if m.encoded_len() != Some(enc.len()) { println!("COUNTEREXAMPLE PingPongMessage::{} (payloads {} / {} bytes): encoded_len() = {:?}, encode() wrote {} bytes", m.variant(), a, b, m.encoded_len(), enc.len()); return; }
                match PingPongMessage::get_decoded(&enc) {
                    Ok(d) => if d != m { println!("COUNTEREXAMPLE PingPongMessage::{} (payloads {} / {} bytes) does not decode to itself", m.variant(), a, b); return; },
                    Err(e) => { println!("COUNTEREXAMPLE PingPongMessage::{} (payloads {} / {} bytes): its own encoding is refused: {}", m.variant(), a, b, e); return; }
                }
                if a <= 2 {
                    for cut in 0..enc.len() {
                        if PingPongMessage::get_decoded(&enc[..cut]).is_ok() { println!("COUNTEREXAMPLE PingPongMessage::{}: the first {} of {} bytes of an encoding are accepted", m.variant(), cut, enc.len()); return; }
                    }
                    let mut longer = enc.clone(); longer.push(0);
                    if PingPongMessage::get_decoded(&longer).is_ok() { println!("COUNTEREXAMPLE PingPongMessage::{}: an encoding followed by an extra byte is accepted as a whole", m.variant()); return; }
                }
            }
        } }
        for tag in 3u8..=255 {
            let mut bytes = vec![tag]; bytes.extend_from_slice(&[0, 0, 0, 0]);
            if PingPongMessage::get_decoded(&bytes).is_ok() { println!("COUNTEREXAMPLE PingPongMessage: unknown message type {} is accepted", tag); return; }
        }
        // a length prefix that claims more than what is left
        for tag in 0u8..3 {
            let bytes = vec![tag, 0, 0, 0, 9, 1, 2, 3];
            if PingPongMessage::get_decoded(&bytes).is_ok() { println!("COUNTEREXAMPLE PingPongMessage: a length prefix of 9 with 3 bytes left is accepted (type {})", tag); return; }
        }
    }
}
