// Executable form of the Flp::query root-of-unity contract (harness c05_flp.rs), evaluated on the REAL
// shipped circuits: for every power w of the principal wire_poly_len-th root of unity, query() must refuse.
// Injected into src/flp.rs.  Prints `COUNTEREXAMPLE ...` per violated clause.
#[cfg(test)]
mod verif_oracle_flp {
    use super::*;
    use crate::field::{Field64, FieldElementWithInteger, NttFriendlyFieldElement};
    use crate::flp::types::{Count, Sum};

    fn check<T: Type<Field = Field64>>(name: &str, typ: &T, calls: usize) {
        let n = (1 + calls).next_power_of_two();
        let mut l = 0; while (1usize << l) < n { l += 1; }
        let w = Field64::root(l).unwrap();
        let input = vec![Field64::zero(); typ.input_len()];
        let proof = vec![Field64::zero(); typ.proof_len()];
        let jr = vec![Field64::zero(); typ.joint_rand_len()];
        let mut r = Field64::one();
        for k in 0..n {
            if r.pow(n as u64) != Field64::one() { println!("oracle bug: not a root"); }
            let mut qr = vec![Field64::from(7u64); typ.query_rand_len()];
            let last = qr.len() - 1;
            qr[last] = r;
            if typ.query(&input, &proof, &qr, &jr, 1).is_ok() {
                println!("COUNTEREXAMPLE Flp::query {} (gadget calls {}, wire polynomial length {}): query randomness w^{} with w the principal {}-th root of unity is accepted", name, calls, n, k, n);
                return;
            }
            r *= w;
        }
    }
    #[test]
    fn oracle_query_root_guard() {
        check("Count<Field64>", &Count::<Field64>::new(), 1);
        check("Sum<Field64>(max 255)", &Sum::<Field64>::new(255).unwrap(), 8);
        check("Sum<Field64>(max 3)", &Sum::<Field64>::new(3).unwrap(), 2);
        check("Sum<Field64>(max 31)", &Sum::<Field64>::new(31).unwrap(), 5);
    }
}
