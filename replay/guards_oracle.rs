// Executable form of the vdaf_guards / flp_lens contracts, evaluated on the REAL constructors over a
// boundary lattice.  Injected into src/vdaf/prio2.rs.  Prints `COUNTEREXAMPLE ...` per violated clause.
#[cfg(test)]
mod verif_oracle_guards {
    use super::*;
    use crate::flp::gadgets::{Mul, ParallelSum};
    use crate::flp::types::Histogram;
    use crate::flp::{Flp, Type};
    use crate::field::Field128;
    use std::panic::catch_unwind;

    fn lattice() -> Vec<usize> {
        let mut v = vec![0usize, 1, 2, 3, 5, 6, 7, 8, 9];
        for k in [10u32, 18, 19, 20, 21, 30, 31, 32, 33, 62, 63] {
            let b = 1usize << k;
            v.extend([b - 1, b, b + 1, b - 2]);
        }
        v.extend([usize::MAX, usize::MAX - 1, usize::MAX / 2, usize::MAX / 2 + 1, usize::MAX / 4, usize::MAX / 4 + 1, (u32::MAX as usize) / 4, (u32::MAX as usize) / 4 + 1]);
        v
    }
    fn npo2(x: u128) -> u128 { let mut p = 1u128; while p < x { p *= 2; } p }

    #[test]
    fn oracle_prio2_new() {
        for n in lattice() {
            let r = catch_unwind(|| Prio2::new(n).is_ok());
            let want = 2 * npo2(n as u128 + 1) <= (1u128 << 20);
            match r {
                Err(_) => println!("COUNTEREXAMPLE Prio2::new input_len={} panicked (want {})", n, if want { "Ok" } else { "Err" }),
                Ok(ok) if ok != want => println!("COUNTEREXAMPLE Prio2::new input_len={} got is_ok={} want {}", n, ok, want),
                _ => {}
            }
            if n < (1 << 40) {
                let r = catch_unwind(|| client::proof_length(n));
                match r {
                    Ok(l) if l as u128 == n as u128 + 3 + npo2(n as u128 + 1) => {}
                    other => println!("COUNTEREXAMPLE proof_length dimension={} got {:?}", n, other.ok()),
                }
            }
        }
    }

    #[test]
    fn oracle_histogram() {
        type H = Histogram<Field128, ParallelSum<Field128, Mul>>;
        for length in [0usize, 1, 2, 3, 10, (u32::MAX as usize) - 1, u32::MAX as usize, usize::MAX] {
            for chunk in [0usize, 1, 2, 3, 7, 1 << 20] {
                let r = catch_unwind(|| H::new(length, chunk).map(|h| (h.input_len(), h.proof_len(), h.verifier_len(), h.prove_rand_len(), h.joint_rand_len())));
                let want_ok = length > 0 && length < u32::MAX as usize && chunk > 0;
                match r {
                    Err(_) => println!("COUNTEREXAMPLE Histogram::new length={} chunk_length={} panicked", length, chunk),
                    Ok(Err(_)) if want_ok => println!("COUNTEREXAMPLE Histogram::new length={} chunk_length={} got Err want Ok", length, chunk),
                    Ok(Ok(_)) if !want_ok => println!("COUNTEREXAMPLE Histogram::new length={} chunk_length={} got Ok want Err", length, chunk),
                    Ok(Ok((il, pl, vl, prl, jrl))) => {
                        let calls = (length as u128 + chunk as u128 - 1) / chunk as u128;
                        let wpl = npo2(1 + calls);
                        if il != length || pl as u128 != 2 * chunk as u128 + 2 * (wpl - 1) + 1 || vl != 2 + 2 * chunk || prl != 2 * chunk || jrl as u128 != calls {
                            println!("COUNTEREXAMPLE Histogram lens length={} chunk_length={} got {:?}", length, chunk, (il, pl, vl, prl, jrl));
                        }
                    }
                    _ => {}
                }
            }
        }
        // encode_measurement: out-of-range bucket => Err, never a panic
        let h = H::new(4, 2).unwrap();
        for m in [0usize, 3, 4, 5, usize::MAX] {
            match catch_unwind(|| h.encode_measurement(&m).is_ok()) {
                Err(_) => println!("COUNTEREXAMPLE Histogram::encode_measurement length=4 measurement={} panicked", m),
                Ok(ok) if ok != (m < 4) => println!("COUNTEREXAMPLE Histogram::encode_measurement length=4 measurement={} got is_ok={}", m, ok),
                _ => {}
            }
        }
    }

    // contract of Prio2::choose_eval_at (unit prio2_eval): the point returned is not a 2N-th root of unity.
    // PRNG seeds are searched for streams whose FIRST element is a 2N-th root of unity (probability 2N/p per
    // seed), so the rejection branch is actually exercised on the real code.
    #[test]
    fn oracle_prio2_eval_at() {
        use crate::field::{FieldElementWithInteger, FieldPrio2};
        use crate::prng::Prng;
        for input_len in [(1usize << 19) - 1, (1 << 18) - 1, 1 << 17] {
            let vdaf = Prio2::new(input_len).unwrap();
            let dom = 2 * npo2(input_len as u128 + 1) as u32;
            let mut tried = 0;
            for s in 0u64..60_000 {
                let mut seed = [0u8; 32];
                seed[..8].copy_from_slice(&s.to_le_bytes());
                let first: FieldPrio2 = Prng::from_prio2_seed(&seed).get();
                if first.pow(dom) != FieldPrio2::one() { continue; }
                tried += 1;
                let mut prng = Prng::from_prio2_seed(&seed);
                let r = vdaf.choose_eval_at(&mut prng);
                if r.pow(dom) == FieldPrio2::one() {
                    println!("COUNTEREXAMPLE Prio2::choose_eval_at input_len={} prng_seed_le64={} returned {} which is a {}-th root of unity (an interpolation node)", input_len, s, r, dom);
                    return;
                }
                if tried >= 24 { break; }
            }
        }
    }

    // contracts of SumVec::new / L1BoundSum::new / MultihotCountVec::new (unit flp_new): Ok exactly on the documented
    // domain, never a panic, and the gadget calls (== joint_rand_len) cover every chunk of the encoded input
    #[test]
    fn oracle_flp_new() {
        use crate::flp::types::{L1BoundSum, MultihotCountVec, SumVec};
        type PS = ParallelSum<Field128, Mul>;
        let bits = |m: u128| 128 - m.leading_zeros() as u128;
        let lens = [0usize, 1, 2, 3, 4, 5, 6, 7, 9, 1 << 20, usize::MAX / 2, usize::MAX - 1, usize::MAX];
        let chunks = [0usize, 1, 2, 3, 4, 5, 7, 8, 1 << 16];
        let maxes = [0u128, 1, 2, 3, 4, 7, 8, 255, 256, (1 << 64) - 1, 1 << 64, u128::MAX];
        let modulus = Field128::modulus();
        for &max in &maxes { for &len in &lens { for &chunk in &chunks {
            // L1BoundSum: input = (len + 1) numbers of `bits` digits
            let total = bits(max).checked_mul(len as u128 + 1).filter(|t| *t <= usize::MAX as u128);
            let want_ok = len > 0 && chunk > 0 && max > 0 && max < modulus && total.is_some();
            match catch_unwind(|| L1BoundSum::<Field128, PS>::new(max, len, chunk).map(|t| (t.input_len(), t.joint_rand_len()))) {
                Err(_) => println!("COUNTEREXAMPLE L1BoundSum::new max_value={} measurement_len={} chunk_length={} panicked", max, len, chunk),
                Ok(Err(_)) if want_ok => println!("COUNTEREXAMPLE L1BoundSum::new max_value={} measurement_len={} chunk_length={} got Err want Ok", max, len, chunk),
                Ok(Ok(x)) if !want_ok => println!("COUNTEREXAMPLE L1BoundSum::new max_value={} measurement_len={} chunk_length={} got Ok{:?} want Err", max, len, chunk, x),
                Ok(Ok((il, calls))) => {
                    let t = total.unwrap();
                    let want_calls = (t + chunk as u128 - 1) / chunk as u128;
                    if il as u128 != t || calls as u128 != want_calls {
                        println!("COUNTEREXAMPLE L1BoundSum::new max_value={} measurement_len={} chunk_length={}: input_len {} (want {}), gadget calls {} (want ceil(input_len/chunk_length) = {}: the last chunk, digits of the claimed norm, is not range-checked)", max, len, chunk, il, t, calls, want_calls);
                    }
                }
                _ => {}
            }
            // SumVec: input = len numbers of `bits` digits
            let total = bits(max).checked_mul(len as u128).filter(|t| *t <= usize::MAX as u128);
            let want_ok = len > 0 && chunk > 0 && max > 0 && max < modulus && total.is_some();
            match catch_unwind(|| SumVec::<Field128, PS>::new(max, len, chunk).map(|t| (t.input_len(), t.joint_rand_len()))) {
                Err(_) => println!("COUNTEREXAMPLE SumVec::new max_measurement={} len={} chunk_length={} panicked", max, len, chunk),
                Ok(Err(_)) if want_ok => println!("COUNTEREXAMPLE SumVec::new max_measurement={} len={} chunk_length={} got Err want Ok", max, len, chunk),
                Ok(Ok(x)) if !want_ok => println!("COUNTEREXAMPLE SumVec::new max_measurement={} len={} chunk_length={} got Ok{:?} want Err", max, len, chunk, x),
                Ok(Ok((il, calls))) => {
                    let t = total.unwrap();
                    if il as u128 != t || calls as u128 != (t + chunk as u128 - 1) / chunk as u128 {
                        println!("COUNTEREXAMPLE SumVec::new max_measurement={} len={} chunk_length={}: input_len {} gadget calls {}", max, len, chunk, il, calls);
                    }
                }
                _ => {}
            }
        } } }
        for &buckets in &[0usize, 1, 2, 5, 8, (u32::MAX as usize) - 1, u32::MAX as usize, usize::MAX] { for &w in &[0usize, 1, 2, 3, 4, 7, 8, usize::MAX] { for &chunk in &chunks {
            let want_ok = buckets > 0 && buckets < u32::MAX as usize && chunk > 0 && w > 0;
            match catch_unwind(|| MultihotCountVec::<Field128, PS>::new(buckets, w, chunk).map(|t| (t.input_len(), t.joint_rand_len()))) {
                Err(_) => println!("COUNTEREXAMPLE MultihotCountVec::new num_buckets={} max_weight={} chunk_length={} panicked", buckets, w, chunk),
                Ok(Err(_)) if want_ok => println!("COUNTEREXAMPLE MultihotCountVec::new num_buckets={} max_weight={} chunk_length={} got Err want Ok", buckets, w, chunk),
                Ok(Ok(x)) if !want_ok => println!("COUNTEREXAMPLE MultihotCountVec::new num_buckets={} max_weight={} chunk_length={} got Ok{:?} want Err", buckets, w, chunk, x),
                Ok(Ok((il, calls))) => {
                    let t = buckets as u128 + bits(w as u128);
                    if il as u128 != t || calls as u128 != (t + chunk as u128 - 1) / chunk as u128 {
                        println!("COUNTEREXAMPLE MultihotCountVec::new num_buckets={} max_weight={} chunk_length={}: input_len {} gadget calls {}", buckets, w, chunk, il, calls);
                    }
                }
                _ => {}
            }
        } } }
    }
}
