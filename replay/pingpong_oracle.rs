// Executable form of the ping-pong contracts and of the whole-exchange theorem (unit pingpong), evaluated on the REAL routines with
// an ORDER-SENSITIVE, multi-round instrumented VDAF: the verifier message is 3*share[0] + 5*share[1] + 7 (swapping the two shares
// changes it), states and shares depend on the aggregator id, the round and everything received so far.  For 1..=5 rounds the
// exchange driven by leader_initialized / helper_initialized / leader_continued / helper_continued / evaluate is compared with the
// direct broadcast execution (output shares, kinds of the messages exchanged); every wrong-kind message at every step must be refused;
// evaluate must be repeatable.  Injected into src/topology/ping_pong.rs.
#[cfg(test)]
mod verif_oracle_pingpong {
    use super::*;
    use crate::codec::{CodecError, Decode, Encode};
    use crate::vdaf::{Aggregatable, Aggregator, Vdaf, VdafError, VerifyTransition};
    use std::io::Cursor;

    #[derive(Clone, Copy, Debug, PartialEq, Eq)]
    pub struct W(u64);
    impl Encode for W {
        fn encode(&self, bytes: &mut Vec<u8>) -> Result<(), CodecError> { self.0.encode(bytes) }
        fn encoded_len(&self) -> Option<usize> { Some(8) }
    }
    impl Decode for W {
        fn decode(bytes: &mut Cursor<&[u8]>) -> Result<Self, CodecError> { Ok(W(u64::decode(bytes)?)) }
    }
    impl Aggregatable for W {
        type OutputShare = W;
        fn merge(&mut self, o: &Self) -> Result<(), VdafError> { self.0 = self.0.wrapping_add(o.0); Ok(()) }
        fn accumulate(&mut self, o: &Self) -> Result<(), VdafError> { self.0 = self.0.wrapping_add(o.0); Ok(()) }
    }
    #[derive(Clone, Copy, Debug, PartialEq, Eq)]
    pub struct St { id: u64, round: u64, acc: u64 }
    impl Encode for St {
        fn encode(&self, bytes: &mut Vec<u8>) -> Result<(), CodecError> { self.id.encode(bytes)?; self.round.encode(bytes)?; self.acc.encode(bytes) }
        fn encoded_len(&self) -> Option<usize> { Some(24) }
    }

    #[derive(Clone, Debug)]
    pub struct TraceVdaf { rounds: u64 }
    impl Vdaf for TraceVdaf {
        type Measurement = ();
        type AggregateResult = ();
        type AggregationParam = W;
        type PublicShare = ();
        type InputShare = W;
        type OutputShare = W;
        type AggregateShare = W;
        fn algorithm_id(&self) -> u32 { 0 }
        fn num_aggregators(&self) -> usize { 2 }
    }
    fn mix(a: u64, b: u64) -> u64 { a.wrapping_mul(6364136223846793005).wrapping_add(b).rotate_left(17) ^ 0x9e3779b97f4a7c15 }
    impl Aggregator<16, 16> for TraceVdaf {
        type VerifyState = St;
        type VerifierShare = W;
        type VerifierMessage = W;
        fn verify_init(&self, _: &[u8; 16], _: &[u8], agg_id: usize, _: &W, _: &[u8; 16], _: &(), inp: &W) -> Result<(St, W), VdafError> {
            let st = St { id: agg_id as u64, round: 0, acc: mix(inp.0, agg_id as u64) };
            Ok((st, W(mix(st.acc, 1000 + agg_id as u64))))
        }
        fn verifier_shares_to_message<M: IntoIterator<Item = W>>(&self, _: &[u8], _: &W, inputs: M) -> Result<W, VdafError> {
            let v: Vec<W> = inputs.into_iter().collect();
            if v.len() != 2 { return Err(VdafError::Uncategorized("share count".into())); }
            Ok(W(v[0].0.wrapping_mul(3).wrapping_add(v[1].0.wrapping_mul(5)).wrapping_add(7)))        // order-sensitive
        }
        fn verify_next(&self, _: &[u8], state: St, msg: W) -> Result<VerifyTransition<Self, 16, 16>, VdafError> {
            let acc = mix(state.acc, msg.0);
            if state.round + 1 == self.rounds { Ok(VerifyTransition::Finish(W(acc))) }
            else { let st = St { id: state.id, round: state.round + 1, acc }; Ok(VerifyTransition::Continue(st, W(mix(acc, 2000 + state.id)))) }
        }
        fn aggregate_init(&self, _: &W) -> W { W(0) }
        fn is_agg_param_valid(_: &W, _: &[W]) -> bool { true }
    }

    // direct broadcast execution: (leader output, helper output)
    fn broadcast(v: &TraceVdaf, li: W, hi: W) -> (W, W) {
        let (mut ls, mut lsh) = v.verify_init(&[0; 16], b"ctx", 0, &W(0), &[0; 16], &(), &li).unwrap();
        let (mut hs, mut hsh) = v.verify_init(&[0; 16], b"ctx", 1, &W(0), &[0; 16], &(), &hi).unwrap();
        loop {
            let m = v.verifier_shares_to_message(b"ctx", &W(0), [lsh, hsh]).unwrap();
            match (v.verify_next(b"ctx", ls, m).unwrap(), v.verify_next(b"ctx", hs, m).unwrap()) {
                (VerifyTransition::Continue(a, b), VerifyTransition::Continue(c, d)) => { ls = a; lsh = b; hs = c; hsh = d; }
                (VerifyTransition::Finish(a), VerifyTransition::Finish(b)) => return (a, b),
                _ => panic!("instrumented VDAF out of step"),
            }
        }
    }
    fn kind(m: &PingPongMessage) -> &'static str { m.variant() }
    fn retype(m: &PingPongMessage) -> Vec<PingPongMessage> {
        // the same payloads under the two other kinds
        let (a, b) = match m {
            PingPongMessage::Initialize { verifier_share } => (verifier_share.clone(), verifier_share.clone()),
            PingPongMessage::Continue { verifier_message, verifier_share } => (verifier_message.clone(), verifier_share.clone()),
            PingPongMessage::Finish { verifier_message } => (verifier_message.clone(), verifier_message.clone()),
        };
        let all = vec![PingPongMessage::Initialize { verifier_share: b.clone() }, PingPongMessage::Continue { verifier_message: a.clone(), verifier_share: b.clone() },
                       PingPongMessage::Finish { verifier_message: a }];
        all.into_iter().filter(|x| kind(x) != kind(m)).collect()
    }

    #[test]
    fn oracle_exchange() {
        for rounds in 1..=5u64 {
            let v = TraceVdaf { rounds };
            let (li, hi) = (W(11 + rounds), W(23));
            let (want_l, want_h) = broadcast(&v, li, hi);
            let mut kinds: Vec<&'static str> = vec![];
            let lead = match v.leader_initialized(&[0; 16], b"ctx", &W(0), &[0; 16], &(), &li) {
                Ok(c) => c, Err(e) => { println!("COUNTEREXAMPLE leader_initialized refuses an honest report ({} rounds): {}", rounds, e); continue; } };
            kinds.push(kind(&lead.message));
            // wrong kind into helper_initialized
            for bad in retype(&lead.message) {
                if v.helper_initialized(&[0; 16], b"ctx", &W(0), &[0; 16], &(), &hi, &bad).is_ok() {
                    println!("COUNTEREXAMPLE helper_initialized accepts a {} message carrying the leader share ({} rounds): a message of the wrong kind is not refused", kind(&bad), rounds);
                }
            }
            let cont = match v.helper_initialized(&[0; 16], b"ctx", &W(0), &[0; 16], &(), &hi, &lead.message) {
                Ok(c) => c, Err(e) => { println!("COUNTEREXAMPLE helper_initialized refuses the honest Initialize message ({} rounds): {}", rounds, e); continue; } };
            let mut waiting_state = lead.verifier_state;          // state of the party that is NOT moving
            let mut mover_is_leader = false;
            let mut cont = cont;
            let (mut got_l, mut got_h) = (None, None);
            let mut turn = 1;
            loop {
                let s1 = cont.evaluate(b"ctx", &v);
                let s2 = cont.evaluate(b"ctx", &v);
                match (&s1, &s2) {
                    (Ok(a), Ok(b)) => if a != b { println!("COUNTEREXAMPLE PingPongContinuation::evaluate gives two different states for the same continuation (turn {}, {} rounds)", turn, rounds); },
                    _ => { println!("COUNTEREXAMPLE PingPongContinuation::evaluate fails in an honest exchange (turn {}, {} rounds)", turn, rounds); break; }
                }
                let (outbound, my_state) = match s1.unwrap() {
                    PingPongState::Continued(c) => (c.message, Some(c.verifier_state)),
                    PingPongState::FinishedWithOutbound { output_share, message } => { if mover_is_leader { got_l = Some(output_share) } else { got_h = Some(output_share) }; (message, None) }
                    PingPongState::Finished { output_share } => { if mover_is_leader { got_l = Some(output_share) } else { got_h = Some(output_share) }; break; }
                };
                kinds.push(kind(&outbound));
                // the other party moves; first: every re-typed version of the message must be refused without an output share
                let next_is_leader = !mover_is_leader;
                for bad in retype(&outbound) {
                    let r = if next_is_leader { v.leader_continued(b"ctx", &W(0), waiting_state, &bad) } else { v.helper_continued(b"ctx", &W(0), waiting_state, &bad) };
                    if r.is_ok() {
                        println!("COUNTEREXAMPLE {}_continued accepts the peer's {} message re-typed as {} (turn {}, {} rounds): a message of the wrong kind is not refused",
                                 if next_is_leader { "leader" } else { "helper" }, kind(&outbound), kind(&bad), turn + 1, rounds);
                    }
                }
                let r = if next_is_leader { v.leader_continued(b"ctx", &W(0), waiting_state, &outbound) } else { v.helper_continued(b"ctx", &W(0), waiting_state, &outbound) };
                cont = match r { Ok(c) => c, Err(e) => { println!("COUNTEREXAMPLE {}_continued refuses the honest {} message at turn {} ({} rounds): {}",
                                                             if next_is_leader { "leader" } else { "helper" }, kind(&outbound), turn + 1, rounds, e); break; } };
                if let Some(s) = my_state { waiting_state = s; }
                mover_is_leader = next_is_leader;
                turn += 1;
                if turn > 20 { println!("COUNTEREXAMPLE the exchange does not end ({} rounds)", rounds); break; }
            }
            if got_l != Some(want_l) || got_h != Some(want_h) {
                println!("COUNTEREXAMPLE ping-pong exchange with an order-sensitive {}-round VDAF ends with output shares ({:?}, {:?}); the broadcast execution gives ({:?}, {:?})",
                         rounds, got_l.map(|w| w.0), got_h.map(|w| w.0), want_l.0, want_h.0);
            }
            let mut want_kinds = vec!["Initialize"];
            for _ in 1..rounds { want_kinds.push("Continue"); }
            want_kinds.push("Finish");
            if kinds != want_kinds { println!("COUNTEREXAMPLE {}-round exchange sends {:?}, specified {:?}", rounds, kinds, want_kinds); }
        }
    }
}
