// Executable form of the XOF absorb contracts (unit xof_absorb), evaluated on the REAL code: the stream produced by
// XofTurboShake128::seed_stream(seed, dst_parts, binder_parts) must equal TurboSHAKE128 (the same foreign sponge, driven
// directly) over  le16(|dst|) ++ dst ++ [|seed|] ++ seed ++ binder  for dst/binder strings of boundary lengths (around the
// 168-byte sponge rate and up to 65535) split into parts at every kind of position.  Injected into src/vdaf/xof.rs.
#[cfg(test)]
mod verif_oracle_xof {
    use super::*;

    fn reference(seed: &[u8; 32], dst: &[u8], binder: &[u8]) -> [u8; 48] {
        let mut h = CTurboShake128::<XOF_TURBO_SHAKE_128_DOMAIN_SEPARATION>::default();
        let mut msg = Vec::new();
        msg.extend_from_slice(&(dst.len() as u16).to_le_bytes());
        msg.extend_from_slice(dst);
        msg.push(32);
        msg.extend_from_slice(seed);
        msg.extend_from_slice(binder);
        Update::update(&mut h, &msg);
        let mut out = [0u8; 48];
        XofReader::read(&mut h.finalize_xof(), &mut out);
        out
    }
    fn bytes(len: usize, salt: u8) -> Vec<u8> { (0..len).map(|i| (i as u8).wrapping_mul(31).wrapping_add(salt)).collect() }

    #[test]
    fn oracle_dst_binding() {
        let seed = [0x5au8; 32];
        for &dl in &[0usize, 1, 8, 9, 157, 158, 159, 160, 167, 168, 169, 200, 336, 337, 1000, 65535] {
            for &bl in &[0usize, 1, 16, 167, 168, 169, 400] {
                let dst = bytes(dl, 1);
                let binder = bytes(bl, 2);
                let want = reference(&seed, &dst, &binder);
                // split the dst after the 8-byte tag (as the VDAFs do), in the middle, and not at all
                for &cut in &[0usize, 8, dl / 2, dl] {
                    let cut = cut.min(dl);
                    let parts: [&[u8]; 2] = [&dst[..cut], &dst[cut..]];
                    let bcut = bl / 3;
                    let bparts: [&[u8]; 2] = [&binder[..bcut], &binder[bcut..]];
                    let mut got = [0u8; 48];
                    XofTurboShake128::seed_stream(&seed, &parts, &bparts).fill_bytes(&mut got);
                    if got != want {
                        println!("COUNTEREXAMPLE XofTurboShake128::seed_stream: dst of {} bytes split at {}, binder of {} bytes split at {}: the stream is not TurboSHAKE128(le16(|dst|) ++ dst ++ [32] ++ seed ++ binder) - some dst/binder byte is not bound (or bound out of order)", dl, cut, bl, bcut);
                        return;
                    }
                }
                // flipping the LAST dst byte / last binder byte must change what is absorbed
                if dl > 0 {
                    let mut d2 = dst.clone(); d2[dl - 1] ^= 1;
                    let mut a = [0u8; 48]; let mut b = [0u8; 48];
                    XofTurboShake128::seed_stream(&seed, &[&dst[..]], &[&binder[..]]).fill_bytes(&mut a);
                    XofTurboShake128::seed_stream(&seed, &[&d2[..]], &[&binder[..]]).fill_bytes(&mut b);
                    if a == b { println!("COUNTEREXAMPLE XofTurboShake128::seed_stream: two dst strings of {} bytes differing only in the last byte give the same stream", dl); return; }
                }
            }
        }
    }
}
