// Executable form of the XOF absorb contracts (unit xof_absorb), evaluated on the REAL code: the stream produced by
// XofTurboShake128::seed_stream(seed, dst_parts, binder_parts) must equal TurboSHAKE128 (the same foreign sponge, driven
// directly) over  le16(|dst|) ++ dst ++ [|seed|] ++ seed ++ binder  for dst/binder strings of boundary lengths (around the
// 168-byte sponge rate and up to 65535) split into parts at every kind of position.  Injected into src/vdaf/xof.rs.
#[cfg(test)]
mod verif_oracle_xof {
    use super::*;

    fn reference(seed: &[u8; 32], dst: &[u8], binder: &[u8]) -> [u8; 48] {
        let mut h = CTurboShake128::<XOF_TURBO_SHAKE_128_DOMAIN_SEPARATION>::default();
        let mut msg = Vec::new();
        msg.extend_from_slice(&(dst.len() as u16).to_le_bytes());
        msg.extend_from_slice(dst);
        msg.push(32);
        msg.extend_from_slice(seed);
        msg.extend_from_slice(binder);
        Update::update(&mut h, &msg);
        let mut out = [0u8; 48];
        XofReader::read(&mut h.finalize_xof(), &mut out);
        out
    }
    fn bytes(len: usize, salt: u8) -> Vec<u8> { (0..len).map(|i| (i as u8).wrapping_mul(31).wrapping_add(salt)).collect() }

    #[test]
    fn oracle_dst_binding() {
        let seed = [0x5au8; 32];
        for &dl in &[0usize, 1, 8, 9, 157, 158, 159, 160, 167, 168, 169, 200, 336, 337, 1000, 65535] {
            for &bl in &[0usize, 1, 16, 167, 168, 169, 400] {
                let dst = bytes(dl, 1);
                let binder = bytes(bl, 2);
                let want = reference(&seed, &dst, &binder);
                // split the dst after the 8-byte tag (as the VDAFs do), in the middle, and not at all
                for &cut in &[0usize, 8, dl / 2, dl] {
                    let cut = cut.min(dl);
                    let parts: [&[u8]; 2] = [&dst[..cut], &dst[cut..]];
                    let bcut = bl / 3;
                    let bparts: [&[u8]; 2] = [&binder[..bcut], &binder[bcut..]];
                    let mut got = [0u8; 48];
                    XofTurboShake128::seed_stream(&seed, &parts, &bparts).fill_bytes(&mut got);
                    if got != want {
                        println!("COUNTEREXAMPLE XofTurboShake128::seed_stream: dst of {} bytes split at {}, binder of {} bytes split at {}: the stream is not TurboSHAKE128(le16(|dst|) ++ dst ++ [32] ++ seed ++ binder) - some dst/binder byte is not bound (or bound out of order)", dl, cut, bl, bcut);
                        return;
                    }
                }
                // flipping the LAST dst byte / last binder byte must change what is absorbed
                if dl > 0 {
                    let mut d2 = dst.clone(); d2[dl - 1] ^= 1;
                    let mut a = [0u8; 48]; let mut b = [0u8; 48];
                    XofTurboShake128::seed_stream(&seed, &[&dst[..]], &[&binder[..]]).fill_bytes(&mut a);
                    XofTurboShake128::seed_stream(&seed, &[&d2[..]], &[&binder[..]]).fill_bytes(&mut b);
                    if a == b { println!("COUNTEREXAMPLE XofTurboShake128::seed_stream: two dst strings of {} bytes differing only in the last byte give the same stream", dl); return; }
                }
            }
        }
    }

    // unit xof_inits: the two other XOFs absorb EVERY byte of EVERY dst part, in order: the stream depends only on the concatenated
    // dst (any split gives the same stream) and on every one of its bytes (flipping any single byte of any part changes it).
    fn check_parts<const N: usize, P: Xof<N>>(name: &str, max_dst: usize) {
        let seed = [0x5au8; N];
        for &dl in &[0usize, 1, 2, 8, 9, 16, 17, 31, 32, 33, 64, 200, 255, 256, 1000] {
            if dl > max_dst { continue; }
            let dst = bytes(dl, 3);
            let binder = bytes(20, 4);
            let mut whole = [0u8; 48];
            P::seed_stream(&seed, &[&dst[..]], &[&binder[..]]).fill_bytes(&mut whole);
            for &cut in &[0usize, 1, 8, dl / 2, dl.saturating_sub(1), dl] {
                let cut = cut.min(dl);
                let mut got = [0u8; 48];
                P::seed_stream(&seed, &[&dst[..cut], &dst[cut..]], &[&binder[..7], &binder[7..]]).fill_bytes(&mut got);
                if got != whole { println!("COUNTEREXAMPLE {}::seed_stream: a dst of {} bytes given as two parts split at {} gives another stream than the same dst in one part: not every byte of every dst part is absorbed in order", name, dl, cut); return; }
                let c2 = cut / 2;
                P::seed_stream(&seed, &[&dst[..c2], &dst[c2..cut], &dst[cut..]], &[&binder[..]]).fill_bytes(&mut got);
                if got != whole { println!("COUNTEREXAMPLE {}::seed_stream: a dst of {} bytes given as three parts ({}, {}, {}) gives another stream than in one part", name, dl, c2, cut - c2, dl - cut); return; }
            }
            // every single byte matters, wherever the split is
            for pos in [0usize, dl / 2, dl.saturating_sub(1)] {
                if dl == 0 { break; }
                let mut d2 = dst.clone(); d2[pos] ^= 0x40;
                let cut = 8.min(dl);
                let mut b = [0u8; 48];
                P::seed_stream(&seed, &[&d2[..cut], &d2[cut..]], &[&binder[..]]).fill_bytes(&mut b);
                if b == whole { println!("COUNTEREXAMPLE {}::seed_stream: two dst strings of {} bytes (parts of {} and {} bytes) differing only in byte {} give the same stream: that byte is not bound", name, dl, cut, dl - cut, pos); return; }
            }
        }
    }
    #[test]
    fn oracle_hmac_parts() { check_parts::<32, XofHmacSha256Aes128>("XofHmacSha256Aes128", 255); }
    #[test]
    fn oracle_fixed_key_parts() { check_parts::<16, XofFixedKeyAes128>("XofFixedKeyAes128", 65535); }
    #[test]
    fn oracle_turboshake_parts() { check_parts::<32, XofTurboShake128>("XofTurboShake128", 65535); }
}
