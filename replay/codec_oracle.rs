// Executable form of the vector codec contracts (units codec_items / codec_decode), evaluated on the REAL code with u16 items:
// decode_fixlen_items refuses exactly when position + length overflows or passes the end of the buffer (LengthPrefixTooBig), never
// panics, leaves the cursor where the contract says, returns exactly the consecutive item decodings of the delimited bytes; and
// decode_uN_items(encode_uN_items(items)) == items with the cursor at the end of the vector.  Injected into src/codec.rs.
#[cfg(test)]
mod verif_oracle_codec {
    use super::*;

    #[test]
    fn oracle_vector_codecs() {
        let buf: Vec<u8> = (0..24u8).map(|i| i.wrapping_mul(37).wrapping_add(5)).collect();
        for pos in 0..=buf.len() {
            for length in (0..=26usize).chain([usize::MAX, usize::MAX - 1, usize::MAX - pos, (usize::MAX - pos).wrapping_add(1), 1 << 32, 1 << 63]) {
                let mut cur = Cursor::new(buf.as_slice());
                cur.set_position(pos as u64);
                let too_big = pos.checked_add(length).map_or(true, |e| e > buf.len());
                let r = std::panic::catch_unwind(move || { let r = decode_fixlen_items::<(), u16>(length, &(), &mut cur); (r, cur.position()) });
                match r {
                    Err(_) => println!("COUNTEREXAMPLE decode_fixlen_items panics: buffer of {} bytes, cursor at {}, length {}", buf.len(), pos, length),
                    Ok((Err(CodecError::LengthPrefixTooBig(l)), p)) => {
                        if !too_big || l != length || p != pos as u64 { println!("COUNTEREXAMPLE decode_fixlen_items: buffer of {} bytes, cursor at {}, length {}: LengthPrefixTooBig({}) with cursor at {} (expected only when position + length passes the end, cursor unmoved)", buf.len(), pos, length, l, p); }
                    }
                    Ok((Err(_), _)) => {
                        // an item decoder error: only possible when an odd number of bytes is left for the last u16
                        if too_big || length % 2 == 0 { println!("COUNTEREXAMPLE decode_fixlen_items: buffer of {} bytes, cursor at {}, length {}: refused although the bytes decode", buf.len(), pos, length); }
                    }
                    Ok((Ok(v), p)) => {
                        let want: Vec<u16> = if too_big { vec![] } else { buf[pos..pos + length].chunks_exact(2).map(|c| u16::from_be_bytes([c[0], c[1]])).collect() };
                        if too_big || length % 2 != 0 || v != want || p != (pos + length) as u64 {
                            println!("COUNTEREXAMPLE decode_fixlen_items: buffer of {} bytes, cursor at {}, length {}: Ok with {} items, cursor at {} (expected the {} consecutive items of bytes[{}..{}] and the cursor at its end)", buf.len(), pos, length, v.len(), p, want.len(), pos, pos.wrapping_add(length));
                        }
                    }
                }
            }
        }
        // round trip through each prefix width, with bytes before and after the vector
        for n in [0usize, 1, 2, 5, 127] {
            let items: Vec<u16> = (0..n as u16).map(|i| i.wrapping_mul(257).wrapping_add(3)).collect();
            for w in [1usize, 2, 4] {
                let mut bytes = vec![0xaa, 0xbb];
                let r = match w { 1 => encode_u8_items(&mut bytes, &(), &items), 2 => encode_u16_items(&mut bytes, &(), &items), _ => encode_u32_items(&mut bytes, &(), &items) };
                if r.is_err() { println!("COUNTEREXAMPLE encode_u{}_items refuses {} u16 items", 8 * w, n); continue; }
                let end = bytes.len();
                bytes.extend_from_slice(&[0xcc, 0xdd, 0xee]);
                let mut cur = Cursor::new(bytes.as_slice());
                cur.set_position(2);
                let got: Result<Vec<u16>, _> = match w { 1 => decode_u8_items(&(), &mut cur), 2 => decode_u16_items(&(), &mut cur), _ => decode_u32_items(&(), &mut cur) };
                match got {
                    Ok(v) if v == items && cur.position() == end as u64 => {}
                    Ok(v) => println!("COUNTEREXAMPLE decode_u{}_items(encode_u{}_items({} items)) gives {} items and leaves the cursor at {} (vector ends at {})", 8 * w, 8 * w, n, v.len(), cur.position(), end),
                    Err(e) => println!("COUNTEREXAMPLE decode_u{}_items refuses the encoding of {} items: {}", 8 * w, n, e),
                }
            }
        }
    }

    // Executable form of the field-vector codec contracts (unit fieldvec_codec) on Field64: encode appends exactly the element
    // encodings; decode(count) is Ok exactly when count*8 bytes are there and every chunk is canonical, yields those elements and
    // advances the cursor by count*8.
    #[test]
    fn oracle_fieldvec() {
        use crate::field::{decode_fieldvec, encode_fieldvec, Field64, FieldElement};
        for n in 0..6usize {
            let v: Vec<Field64> = (0..n as u64).map(|i| Field64::from(i * 0x1_0000_0001 + 7)).collect();
            let mut bytes = vec![0x11u8, 0x22, 0x33];
            if encode_fieldvec(&v, &mut bytes).is_err() || bytes.len() != 3 + 8 * n || bytes[..3] != [0x11, 0x22, 0x33] {
                println!("COUNTEREXAMPLE encode_fieldvec of {} Field64 elements after 3 existing bytes: wrote {} bytes in total (expected {}), or touched the existing bytes", n, bytes.len(), 3 + 8 * n);
                continue;
            }
            bytes.extend_from_slice(&[0xee; 5]);
            for count in 0..=(n + 1) {
                let mut cur = Cursor::new(bytes.as_slice());
                cur.set_position(3);
                let r: Result<Vec<Field64>, _> = decode_fieldvec(count, &mut cur);
                // the 5 trailing 0xee bytes are not a whole element: count = n + 1 must fail
                let want_ok = count <= n;
                match r {
                    Ok(w) => if !want_ok || w[..] != v[..count] || cur.position() != (3 + 8 * count) as u64 {
                        println!("COUNTEREXAMPLE decode_fieldvec(count = {}) over the encoding of {} elements: Ok with {} elements, cursor at {} (expected {} elements equal to the encoded ones and the cursor at {})", count, n, w.len(), cur.position(), count, 3 + 8 * count);
                    },
                    Err(_) => if want_ok { println!("COUNTEREXAMPLE decode_fieldvec(count = {}) refuses the encoding of {} elements", count, n); },
                }
            }
        }
        // a non-canonical chunk (all 0xff >= p) is refused
        let bad = [0xffu8; 8];
        let mut cur = Cursor::new(&bad[..]);
        if decode_fieldvec::<Field64>(1, &mut cur).is_ok() { println!("COUNTEREXAMPLE decode_fieldvec accepts the non-canonical Field64 encoding ff..ff"); }
    }
}
