// Executable form of "the decoder allocates in proportion to its input" for Poplar1VerifierState (unit pop_vstate_decode), evaluated on the REAL code under
// a counting global allocator: short inputs whose u32 output-share length header announces up to 2^32-1 elements must be refused without any single
// allocation request larger than a small multiple of the input size.  Injected into src/vdaf/poplar1.rs (the lib test binary has no other global allocator).
#[cfg(test)]
mod verif_oracle_pop_alloc {
    use super::*;
    use crate::codec::ParameterizedDecode;
    use std::alloc::{GlobalAlloc, Layout, System};
    use std::sync::atomic::{AtomicBool, AtomicUsize, Ordering};

    static TRACK: AtomicBool = AtomicBool::new(false);
    static MAX_REQ: AtomicUsize = AtomicUsize::new(0);
    struct Counting;
    unsafe impl GlobalAlloc for Counting {
        unsafe fn alloc(&self, l: Layout) -> *mut u8 {
            if TRACK.load(Ordering::Relaxed) { MAX_REQ.fetch_max(l.size(), Ordering::Relaxed); }
            // refuse absurd requests instead of asking the OS (keeps the oracle itself cheap); the decoder's error handling is what is observed
            if TRACK.load(Ordering::Relaxed) && l.size() > (1 << 30) { return std::ptr::null_mut(); }
            System.alloc(l)
        }
        unsafe fn dealloc(&self, p: *mut u8, l: Layout) { System.dealloc(p, l) }
        unsafe fn realloc(&self, p: *mut u8, l: Layout, n: usize) -> *mut u8 {
            if TRACK.load(Ordering::Relaxed) { MAX_REQ.fetch_max(n, Ordering::Relaxed); }
            System.realloc(p, l, n)
        }
    }
    #[global_allocator]
    static A: Counting = Counting;

    #[test]
    fn oracle_vstate_alloc() {
        let vdaf = Poplar1::new_turboshake128(8);
        for agg_id in 0..2usize {
            for variant in [0u8, 1] {
                for header in [0x0000_0400u32, 0x0010_0000, 0x0100_0000, 0x4000_0000, 0xffff_ffff] {
                    for tail in [0usize, 8, 40] {
                        // [variant: inner/leaf][sketch tag 1 = RoundTwo][u32 BE output share length][tail bytes]
                        let mut bytes = vec![variant, 1u8];
                        bytes.extend_from_slice(&header.to_be_bytes());
                        bytes.extend(std::iter::repeat(0u8).take(tail));
                        MAX_REQ.store(0, Ordering::Relaxed);
                        TRACK.store(true, Ordering::Relaxed);
                        let r = std::panic::catch_unwind(|| Poplar1VerifierState::get_decoded_with_param(&(&vdaf, agg_id), &bytes).is_ok());
                        TRACK.store(false, Ordering::Relaxed);
                        let peak = MAX_REQ.load(Ordering::Relaxed);
                        match r {
                            Err(_) => { println!("COUNTEREXAMPLE Poplar1VerifierState decode panics/aborts: variant={} length header={:#x} with {} byte(s) after it", variant, header, tail); return; }
                            Ok(true) => { println!("COUNTEREXAMPLE Poplar1VerifierState decode accepts a {}-byte input announcing {:#x} elements", bytes.len(), header); return; }
                            Ok(false) => {}
                        }
                        if peak > 64 * 1024 {
                            println!("COUNTEREXAMPLE Poplar1VerifierState decode: a {}-byte input (variant {}, output share length header {:#x}) makes the decoder request a single allocation of {} bytes before refusing it - allocation is sized by the wire count, not by the input", bytes.len(), variant, header, peak);
                            return;
                        }
                    }
                }
            }
        }
    }
}
