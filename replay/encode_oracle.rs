// Executable form of the encoding contracts (unit encode_int), evaluated on the REAL code for Field64 and Field128 with maxima at
// the edges of the integer type: Sum / SumVec / L1BoundSum::encode_measurement is Ok exactly when every entry (and, for L1BoundSum,
// the unbounded integer sum of the entries) is <= the configured maximum, never panics, produces `bits` digits per entry that
// are 0 or 1, and truncate(encode(m)) gives the entries back.  Injected into src/flp/types.rs.
#[cfg(test)]
mod verif_oracle_encode {
    use super::*;
    use crate::field::{Field128, Field64, FieldElement, FieldElementWithInteger};
    use crate::flp::gadgets::{Mul, ParallelSum};
    use crate::flp::types::L1BoundSum;
    use crate::flp::Type;
    use std::panic::{catch_unwind, AssertUnwindSafe};

    macro_rules! oracle_for {
        ($name:ident, $F:ty, $I:ty, $W:expr) => {
            #[test]
            fn $name() {
                type F = $F;
                type I = $I;
                type PS = ParallelSum<F, Mul>;
                let p: I = F::modulus();
                let one: I = 1;
                let mut maxes: Vec<I> = vec![1, 2, 3, 4, 5, 7, 8, 255, 256, 65535, 65536];
                for k in [$W - 3, $W - 2, $W - 1] { let b: I = one << k; maxes.push(b - 1); maxes.push(b); if b + 1 < p { maxes.push(b + 1); } }
                maxes.push(p - 2); maxes.push(p - 1);
                maxes.retain(|m| *m < p);
                for &max in &maxes {
                    let mut probes: Vec<I> = vec![0, 1, 2, max / 2, max / 2 + 1, max - 1, max, max.wrapping_add(1), I::MAX, I::MAX - 1, p - 1, p];
                    let bits = (<I>::BITS - max.leading_zeros()) as usize;
                    let half: I = one << (bits - 1);
                    probes.extend_from_slice(&[half - 1, half, half.wrapping_add(1)]);
                    probes.sort(); probes.dedup();
                    // ---- Sum
                    let sum = match Sum::<F>::new(max) { Ok(s) => s, Err(e) => { println!("COUNTEREXAMPLE Sum::new({}) refuses a maximum below the modulus: {}", max, e); continue; } };
                    for &v in &probes {
                        match catch_unwind(AssertUnwindSafe(|| sum.encode_measurement(&v))) {
                            Err(_) => println!("COUNTEREXAMPLE Sum(max_measurement = {}).encode_measurement({}) panics", max, v),
                            Ok(Ok(enc)) => {
                                if v > max { println!("COUNTEREXAMPLE Sum(max_measurement = {}).encode_measurement({}) accepts a measurement above the maximum", max, v); continue; }
                                if enc.len() != bits || enc.iter().any(|d| *d != F::zero() && *d != F::one()) { println!("COUNTEREXAMPLE Sum(max_measurement = {}).encode_measurement({}) is not {} digits of 0/1", max, v, bits); }
                                match sum.truncate(enc) { Ok(t) => if t != vec![F::from(v)] { println!("COUNTEREXAMPLE Sum(max_measurement = {}): truncate(encode_measurement({})) != the measurement", max, v); },
                                                          Err(e) => println!("COUNTEREXAMPLE Sum(max_measurement = {}): truncate refuses encode_measurement({}): {}", max, v, e) }
                            }
                            Ok(Err(e)) => if v <= max { println!("COUNTEREXAMPLE Sum(max_measurement = {}).encode_measurement({}) refuses an in-range measurement: {}", max, v, e); },
                        }
                    }
                    // ---- SumVec (3 entries) and L1BoundSum (2 entries): every pair of probes
                    let sv = SumVec::<F, PS>::new(max, 3, 2).unwrap();
                    let l1 = L1BoundSum::<F, PS>::new(max, 2, 2).unwrap();
                    for &a in &probes { for &b in &probes {
                        let m3 = vec![a, 0, b];
                        let ok3 = a <= max && b <= max;
                        match catch_unwind(AssertUnwindSafe(|| sv.encode_measurement(&m3))) {
                            Err(_) => println!("COUNTEREXAMPLE SumVec(max = {}).encode_measurement([{}, 0, {}]) panics", max, a, b),
                            Ok(Ok(enc)) => {
                                if !ok3 { println!("COUNTEREXAMPLE SumVec(max = {}).encode_measurement([{}, 0, {}]) accepts an entry above the maximum", max, a, b); continue; }
                                if enc.len() != 3 * bits || enc.iter().any(|d| *d != F::zero() && *d != F::one()) { println!("COUNTEREXAMPLE SumVec(max = {}).encode_measurement([{}, 0, {}]) is not 3*{} digits of 0/1", max, a, b, bits); }
                                match sv.truncate(enc) { Ok(t) => if t != vec![F::from(a), F::zero(), F::from(b)] { println!("COUNTEREXAMPLE SumVec(max = {}): truncate(encode_measurement([{}, 0, {}])) != the measurement", max, a, b); },
                                                         Err(e) => println!("COUNTEREXAMPLE SumVec(max = {}): truncate refuses encode_measurement([{}, 0, {}]): {}", max, a, b, e) }
                            }
                            Ok(Err(e)) => if ok3 { println!("COUNTEREXAMPLE SumVec(max = {}).encode_measurement([{}, 0, {}]) refuses an in-range measurement: {}", max, a, b, e); },
                        }
                        let m2 = vec![a, b];
                        let ok2 = a <= max && b <= max && match a.checked_add(b) { Some(s) => s <= max, None => false };
                        match catch_unwind(AssertUnwindSafe(|| l1.encode_measurement(&m2))) {
                            Err(_) => println!("COUNTEREXAMPLE L1BoundSum(max_value = {}).encode_measurement([{}, {}]) panics instead of returning an error", max, a, b),
                            Ok(Ok(enc)) => {
                                if !ok2 { println!("COUNTEREXAMPLE L1BoundSum(max_value = {}).encode_measurement([{}, {}]) accepts a measurement whose entries or L1 norm exceed the maximum", max, a, b); continue; }
                                if enc.len() != 3 * bits || enc.iter().any(|d| *d != F::zero() && *d != F::one()) { println!("COUNTEREXAMPLE L1BoundSum(max_value = {}).encode_measurement([{}, {}]) is not 3*{} digits of 0/1", max, a, b, bits); }
                                match l1.truncate(enc) { Ok(t) => if t != vec![F::from(a), F::from(b)] { println!("COUNTEREXAMPLE L1BoundSum(max_value = {}): truncate(encode_measurement([{}, {}])) != the measurement", max, a, b); },
                                                         Err(e) => println!("COUNTEREXAMPLE L1BoundSum(max_value = {}): truncate refuses encode_measurement([{}, {}]): {}", max, a, b, e) }
                            }
                            Ok(Err(e)) => if ok2 { println!("COUNTEREXAMPLE L1BoundSum(max_value = {}).encode_measurement([{}, {}]) refuses an in-range measurement: {}", max, a, b, e); },
                        }
                    } }
                }
            }
        };
    }
    oracle_for!(oracle_encode_field64, Field64, u64, 64);
    oracle_for!(oracle_encode_field128, Field128, u128, 128);
}
