// Executable form of the verifier_shares_to_message contract (unit prio3_vs2m), evaluated on the REAL code: honest verifier shares
// of a 3-aggregator, 2-proof Prio3 instance with joint randomness (SumVec) are combined; the message is produced exactly when all
// three shares are supplied intact; a missing or duplicated share, a truncated or extended verifier vector, a verifier element of the
// SECOND proof only being changed, and a joint randomness part being changed (seed must change) are each checked against the contract.
// Injected into src/vdaf/prio3.rs.
#[cfg(test)]
mod verif_oracle_prio3 {
    use super::*;
    use crate::vdaf::{Aggregator, Client};

    #[test]
    fn oracle_vs2m() {
        let vdaf: Prio3<SumVec<Field128, ParallelSum<Field128, Mul>>, XofTurboShake128, 32> = Prio3::new(3, 2, 0xFFFF_0000, SumVec::new(3, 2, 2).unwrap()).unwrap();
        let nonce = [3u8; 16];
        let vk = [5u8; 32];
        let (public_share, input_shares) = vdaf.shard(b"ctx", &vec![1u128, 2], &nonce).unwrap();
        let mut shares = Vec::new();
        for (i, s) in input_shares.iter().enumerate() {
            let (_st, msg) = vdaf.verify_init(&vk, b"ctx", i, &(), &nonce, &public_share, s).unwrap();
            shares.push(msg);
        }
        let vl = shares[0].verifiers.len();
        let run = |v: Vec<Prio3VerifierShare<Field128, 32>>| std::panic::catch_unwind(|| vdaf.verifier_shares_to_message(b"ctx", &(), v));
        let report = |what: &str, r: std::thread::Result<Result<Prio3VerifierMessage<32>, VdafError>>, want_ok: bool| {
            match r {
                Err(_) => println!("COUNTEREXAMPLE Prio3::verifier_shares_to_message panics: {}", what),
                Ok(r) => if r.is_ok() != want_ok { println!("COUNTEREXAMPLE Prio3::verifier_shares_to_message (3 aggregators, 2 proofs, SumVec): {} -> {} (contract: {})", what, if r.is_ok() { "Ok" } else { "Err" }, if want_ok { "Ok" } else { "Err" }); },
            }
        };
        report("the three honest shares", run(shares.clone()), true);
        report("only two of three shares", run(shares[..2].to_vec()), false);
        report("four shares (one duplicated)", run(vec![shares[0].clone(), shares[1].clone(), shares[2].clone(), shares[2].clone()]), false);
        report("no shares", run(vec![]), false);
        let mut t = shares.clone(); t[0].verifiers.pop();
        report("first share one verifier element short", run(t), false);
        let mut t = shares.clone(); t[2].verifiers.push(Field128::zero());
        report("last share one verifier element long", run(t), false);
        let mut t = shares.clone(); t[1].verifiers[vl - 1] += Field128::one();
        report("last verifier element (second proof) of the middle share changed", run(t), false);
        let mut t = shares.clone(); t[1].verifiers[0] += Field128::one();
        report("first verifier element (first proof) of the middle share changed", run(t), false);
        // every joint randomness part is bound into the seed
        let base = vdaf.verifier_shares_to_message(b"ctx", &(), shares.clone()).unwrap();
        for k in 0..3 {
            let mut t = shares.clone();
            let mut part = t[k].joint_rand_part.clone().unwrap();
            part.0[31] ^= 1;
            t[k].joint_rand_part = Some(part);
            if let Ok(Ok(m)) = run(t) {
                if m.joint_rand_seed == base.joint_rand_seed { println!("COUNTEREXAMPLE Prio3::verifier_shares_to_message: changing the joint randomness part of share {} does not change the joint randomness seed", k); }
            }
        }
    }

    // Executable form of "helper input shares are a function of the sharding randomness only" (units prio3_shard_tail / Kani p3_shard_seeds_*):
    // for 2..=9 aggregators, with and without joint randomness, two DIFFERENT measurements sharded with the SAME randomness and nonce must give
    // byte-identical input shares for every helper.
    #[test]
    fn oracle_helper_shares_independent() {
        use crate::codec::Encode;
        // sharding randomness of every shape, the degenerate ones included: the helper shares must be its chunks VERBATIM
        let fills: Vec<(&str, Box<dyn Fn(usize) -> u8>)> = vec![
            ("affine", Box::new(|i| (i as u8).wrapping_mul(29).wrapping_add(7))),
            ("all-zero", Box::new(|_| 0u8)),
            ("constant 0xab", Box::new(|_| 0xabu8)),
            ("period 32", Box::new(|i| (i % 32) as u8)),
            ("period 64", Box::new(|i| ((i % 64) as u8).wrapping_mul(3))),
        ];
        for n in [2u8, 3, 4, 5, 6, 8, 9] {
            for (fname, fill) in &fills {
                // with joint randomness: helper j consumes chunk 2(j-1) (share seed) and chunk 2(j-1)+1 (joint randomness blind)
                let vdaf: Prio3<SumVec<Field128, ParallelSum<Field128, Mul>>, XofTurboShake128, 32> = Prio3::new(n, 1, 0xFFFF_0001, SumVec::new(2, 3, 2).unwrap()).unwrap();
                let random: Vec<u8> = (0..vdaf.random_size()).map(|i| fill(i)).collect();
                let nonce = [5u8; 16];
                let (_, s1) = vdaf.shard_with_random(b"ctx", &vec![0u128, 1, 2], &nonce, &random).unwrap();
                let (_, s2) = vdaf.shard_with_random(b"ctx", &vec![2u128, 0, 1], &nonce, &random).unwrap();
                for j in 1..n as usize {
                    let (e1, e2) = (s1[j].get_encoded().unwrap(), s2[j].get_encoded().unwrap());
                    if e1 != e2 {
                        println!("COUNTEREXAMPLE Prio3::shard_with_random (SumVec with joint randomness, {} aggregators, {} randomness): the input share of helper {} differs between two measurements sharded with the same randomness and nonce", n, fname, j);
                        return;
                    }
                    if e1[..] != random[(j - 1) * 64..j * 64] {
                        println!("COUNTEREXAMPLE Prio3::shard_with_random (SumVec with joint randomness, {} aggregators, {} randomness): the input share of helper {} is not seed || blind copied verbatim from chunks {} and {} of the sharding randomness", n, fname, j, 2 * (j - 1), 2 * (j - 1) + 1);
                        return;
                    }
                }
                // without joint randomness: helper j holds chunk j-1
                let vdaf: Prio3<Sum<Field64>, XofTurboShake128, 32> = Prio3::new(n, 2, 0xFFFF_0002, Sum::new(1000).unwrap()).unwrap();
                let random: Vec<u8> = (0..vdaf.random_size()).map(|i| fill(i)).collect();
                let (_, s1) = vdaf.shard_with_random(b"ctx", &1u64, &nonce, &random).unwrap();
                let (_, s2) = vdaf.shard_with_random(b"ctx", &999u64, &nonce, &random).unwrap();
                for j in 1..n as usize {
                    let (e1, e2) = (s1[j].get_encoded().unwrap(), s2[j].get_encoded().unwrap());
                    if e1 != e2 {
                        println!("COUNTEREXAMPLE Prio3::shard_with_random (Sum, {} aggregators, {} randomness): the input share of helper {} depends on the measurement", n, fname, j);
                        return;
                    }
                    if e1[..] != random[(j - 1) * 32..j * 32] {
                        println!("COUNTEREXAMPLE Prio3::shard_with_random (Sum, {} aggregators, {} randomness): the input share of helper {} is not chunk {} of the sharding randomness", n, fname, j, j - 1);
                        return;
                    }
                }
            }
        }
    }

    // unit prio3_derive: the joint randomness seed is bound to EVERY part (each byte of each part, and their order); the query randomness to
    // the verification key, the context, the nonce and the number of proofs
    #[test]
    fn oracle_derive_transcripts() {
        use crate::flp::Flp;
        let vdaf: Prio3<SumVec<Field128, ParallelSum<Field128, Mul>>, XofTurboShake128, 32> = Prio3::new(3, 2, 0xFFFF_0001, SumVec::new(2, 3, 2).unwrap()).unwrap();
        for n in 1..=5usize {
            let parts: Vec<Seed<32>> = (0..n).map(|k| Seed::from_bytes([(k as u8).wrapping_mul(17).wrapping_add(3); 32])).collect();
            let base = vdaf.derive_joint_rand_seed(b"ctx", parts.iter());
            for k in 0..n { for pos in [0usize, 15, 31] {
                let mut p2 = parts.clone();
                let mut b = [0u8; 32]; b.copy_from_slice(p2[k].as_ref()); b[pos] ^= 1; p2[k] = Seed::from_bytes(b);
                if vdaf.derive_joint_rand_seed(b"ctx", p2.iter()) == base {
                    println!("COUNTEREXAMPLE Prio3::derive_joint_rand_seed with {} parts: flipping byte {} of part {} does not change the joint randomness seed - that part is not bound", n, pos, k);
                    return;
                }
            } }
            if n >= 2 {
                let mut p2 = parts.clone(); p2.swap(0, n - 1);
                if vdaf.derive_joint_rand_seed(b"ctx", p2.iter()) == base { println!("COUNTEREXAMPLE Prio3::derive_joint_rand_seed with {} parts: exchanging the first and the last part does not change the seed", n); return; }
                if vdaf.derive_joint_rand_seed(b"ctx", parts[..n - 1].iter()) == base { println!("COUNTEREXAMPLE Prio3::derive_joint_rand_seed: dropping the last of {} parts does not change the seed", n); return; }
            }
            if vdaf.derive_joint_rand_seed(b"ctY", parts.iter()) == base { println!("COUNTEREXAMPLE Prio3::derive_joint_rand_seed: the context is not bound"); return; }
        }
        let (vk, nonce) = ([7u8; 32], [9u8; 16]);
        let q = vdaf.derive_query_rands(&vk, b"ctx", &nonce);
        let mut vk2 = vk; vk2[31] ^= 1; let mut n2 = nonce; n2[15] ^= 1;
        if vdaf.derive_query_rands(&vk2, b"ctx", &nonce) == q { println!("COUNTEREXAMPLE Prio3::derive_query_rands: the last byte of the verification key is not bound"); }
        if vdaf.derive_query_rands(&vk, b"ctx", &n2) == q { println!("COUNTEREXAMPLE Prio3::derive_query_rands: the last byte of the nonce is not bound"); }
        if vdaf.derive_query_rands(&vk, b"cty", &nonce) == q { println!("COUNTEREXAMPLE Prio3::derive_query_rands: the context is not bound"); }
        let vdaf3: Prio3<SumVec<Field128, ParallelSum<Field128, Mul>>, XofTurboShake128, 32> = Prio3::new(3, 3, 0xFFFF_0001, SumVec::new(2, 3, 2).unwrap()).unwrap();
        let q3 = vdaf3.derive_query_rands(&vk, b"ctx", &nonce);
        if q3[..q.len()] == q[..] { println!("COUNTEREXAMPLE Prio3::derive_query_rands: the number of proofs is not bound (the 2-proof randomness is a prefix of the 3-proof randomness)"); }
        // the specified order: [num_proofs] before the nonce (a 1-byte nonce prefix equal to num_proofs must not collide with the swapped order)
        if q.len() != vdaf.typ.query_rand_len() * 2 { println!("COUNTEREXAMPLE Prio3::derive_query_rands returns {} elements, want query_rand_len * num_proofs = {}", q.len(), vdaf.typ.query_rand_len() * 2); }
    }
}
