// Executable form of the Poplar1 sketch contracts (unit poplar1_sketch), evaluated on the REAL code: honest reports are
// sharded and verified at boundary levels (0, 1, just below/above 65536/3, the last inner level, the leaf); the first
// sketch round and the second round must both accept.  Injected into src/vdaf/poplar1.rs.
#[cfg(test)]
mod verif_oracle_poplar1 {
    use super::*;
    use crate::vdaf::{Aggregator, Client, VerifyTransition};

    fn run(bits: usize, level: usize) -> Result<(), String> {
        let vdaf = Poplar1::new_turboshake128(bits);
        let input = IdpfInput::from_bools(&vec![true; bits]);
        let nonce = [7u8; 16];
        let (public_share, input_shares) = vdaf.shard(b"ctx", &input, &nonce).map_err(|e| format!("shard: {e}"))?;
        let agg_param = Poplar1AggregationParam::try_from_prefixes(vec![input.prefix(level)]).map_err(|e| format!("agg param: {e}"))?;
        let vk = [1u8; 32];
        let r = std::panic::catch_unwind(|| -> Result<(), String> {
            let (s0, m0) = vdaf.verify_init(&vk, b"ctx", 0, &agg_param, &nonce, &public_share, &input_shares[0]).map_err(|e| format!("verify_init(0): {e}"))?;
            let (s1, m1) = vdaf.verify_init(&vk, b"ctx", 1, &agg_param, &nonce, &public_share, &input_shares[1]).map_err(|e| format!("verify_init(1): {e}"))?;
            let msg = vdaf.verifier_shares_to_message(b"ctx", &agg_param, [m0, m1]).map_err(|e| format!("round one: {e}"))?;
            let (s0, m0) = match vdaf.verify_next(b"ctx", s0, msg.clone()).map_err(|e| format!("verify_next(0): {e}"))? { VerifyTransition::Continue(s, m) => (s, m), _ => return Err("leader finished early".into()) };
            let (s1, m1) = match vdaf.verify_next(b"ctx", s1, msg).map_err(|e| format!("verify_next(1): {e}"))? { VerifyTransition::Continue(s, m) => (s, m), _ => return Err("helper finished early".into()) };
            let msg = vdaf.verifier_shares_to_message(b"ctx", &agg_param, [m0, m1]).map_err(|e| format!("round two: {e}"))?;
            let _ = (vdaf.verify_next(b"ctx", s0, msg.clone()).map_err(|e| format!("finish(0): {e}"))?, vdaf.verify_next(b"ctx", s1, msg).map_err(|e| format!("finish(1): {e}"))?);
            Ok(())
        });
        match r { Ok(x) => x, Err(_) => Err("panicked".into()) }
    }

    #[test]
    fn oracle_honest_levels() {
        for (bits, level) in [(8usize, 0usize), (8, 1), (8, 6), (8, 7), (21848, 21845), (21848, 21846), (43700, 43690), (43700, 43691), (65536, 65534), (65536, 65535)] {
            if let Err(e) = run(bits, level) {
                println!("COUNTEREXAMPLE Poplar1 honest report rejected: bits={} level={} (all-ones input, prefix = the input's own path): {}", bits, level, e);
            }
        }
    }

    // Executable form of the is_agg_param_valid contract (unit poplar1_aggparam): every history of up to three parameters drawn
    // from a pool over 3-bit inputs (levels 0..2, several candidate sets) against every current parameter of the pool.
    #[test]
    fn oracle_agg_param_rule() {
        let inp = |bits: &[bool]| IdpfInput::from_bools(bits);
        let pool: Vec<Poplar1AggregationParam> = vec![
            Poplar1AggregationParam::try_from_prefixes(vec![inp(&[false]), inp(&[true])]).unwrap(),
            Poplar1AggregationParam::try_from_prefixes(vec![inp(&[true])]).unwrap(),
            Poplar1AggregationParam::try_from_prefixes(vec![inp(&[false, true]), inp(&[true, false])]).unwrap(),
            Poplar1AggregationParam::try_from_prefixes(vec![inp(&[true, true])]).unwrap(),
            Poplar1AggregationParam::try_from_prefixes(vec![inp(&[false, true, true]), inp(&[true, false, false])]).unwrap(),
            Poplar1AggregationParam::try_from_prefixes(vec![inp(&[true, true, false])]).unwrap(),
        ];
        let expect = |cur: &Poplar1AggregationParam, prev: &[Poplar1AggregationParam]| -> bool {
            match prev.last() {
                None => true,
                Some(last) => cur.level > last.level && cur.prefixes.iter().all(|p| last.prefixes.contains(&p.prefix(last.level as usize))),
            }
        };
        let n = pool.len();
        for hl in 0..=3usize {
            let mut idx = vec![0usize; hl];
            loop {
                let prev: Vec<Poplar1AggregationParam> = idx.iter().map(|&i| pool[i].clone()).collect();
                for cur in &pool {
                    let got = <Poplar1<XofTurboShake128, 32> as Aggregator<32, 16>>::is_agg_param_valid(cur, &prev);
                    let want = expect(cur, &prev);
                    if got != want {
                        println!("COUNTEREXAMPLE Poplar1::is_agg_param_valid: history (oldest first) levels {:?} with candidate counts {:?}, current level {} with {} prefixes: returned {} but the rule (strictly deeper than the MOST RECENT parameter and every prefix extends one of its candidates) gives {}",
                            prev.iter().map(|p| p.level).collect::<Vec<_>>(), prev.iter().map(|p| p.prefixes.len()).collect::<Vec<_>>(), cur.level, cur.prefixes.len(), got, want);
                        return;
                    }
                }
                let mut k = 0;
                while k < hl { idx[k] += 1; if idx[k] < n { break; } idx[k] = 0; k += 1; }
                if k == hl { break; }
            }
        }
    }

    // Executable form of the Poplar1AggregationParam::decode header contract (unit pop_aggparam_header): every header with the level and
    // the prefix count at boundary values, over inputs with no or few bytes after the header, must be refused with an error - never a
    // panic (overflow) and never by way of an allocation sized by the wire count (observed here as the decoder getting past the check:
    // Err(LengthPrefixTooBig) is the only acceptable outcome when count * ceil((level+1)/8) exceeds what is left).
    #[test]
    fn oracle_agg_param_header() {
        for level in [0u16, 6, 7, 8, 15, 16, 31, 255, 0x7fff, 0xfffe, 0xffff] {
            for count in [1u32, 2, 3, 0xff, 0x100, 0xffff, 0x1_0000, 0x4000_0000, 0x8000_0000, 0xffff_fffe, 0xffff_ffff] {
                for tail in [0usize, 1, 2] {
                    let mut bytes = Vec::new();
                    bytes.extend_from_slice(&level.to_be_bytes());
                    bytes.extend_from_slice(&count.to_be_bytes());
                    bytes.extend(std::iter::repeat(0u8).take(tail));
                    let pbl = (level as usize + 1 + 7) / 8;
                    let too_big = (count as u128) * (pbl as u128) > tail as u128;
                    let b2 = bytes.clone();
                    let r = std::panic::catch_unwind(move || Poplar1AggregationParam::get_decoded(&b2));
                    match r {
                        Err(_) => { println!("COUNTEREXAMPLE Poplar1AggregationParam::decode panics: level={} num_prefixes={} with {} byte(s) after the header", level, count, tail); return; }
                        Ok(Ok(_)) => if too_big { println!("COUNTEREXAMPLE Poplar1AggregationParam::decode accepts level={} num_prefixes={} with only {} byte(s) after the header", level, count, tail); return; },
                        Ok(Err(e)) => if too_big && !matches!(e, CodecError::LengthPrefixTooBig(_)) {
                            println!("COUNTEREXAMPLE Poplar1AggregationParam::decode: level={} num_prefixes={} with {} byte(s) after the header is not refused by the length check (LengthPrefixTooBig) but later ({}): the count was not validated against the remaining input before allocating", level, count, tail, e); return; },
                    }
                }
            }
        }
    }

    // Executable form of the eval_and_sketch contract (unit poplar1_sketch): 130 candidate prefixes (more than any batch or cache size in use),
    // honest report.  The output share must be the IDPF data share of every prefix in order, and the sketch must be
    // (a + sum data_k r_k, b + sum data_k r_k^2, c + sum auth_k r_k) with ONE element r_k of the verification-randomness stream per prefix,
    // drawn in order from a stream initialised ONCE for the call.
    #[test]
    fn oracle_eval_and_sketch() {
        use crate::idpf::{Idpf, NoCache};
        let bits = 9usize;
        let vdaf = Poplar1::new_turboshake128(bits);
        let input = IdpfInput::from_bools(&[true, false, true, true, false, false, true, false, true]);
        let nonce = [3u8; 16];
        let vk = [9u8; 32];
        let (public_share, input_shares) = vdaf.shard(b"ctx", &input, &nonce).unwrap();
        let level = 7usize;
        let prefixes: Vec<IdpfInput> = (0u32..130).map(|v| IdpfInput::from_bools(&(0..=level).map(|b| (v >> (level - b)) & 1 == 1).collect::<Vec<_>>())).collect();
        let agg_param = Poplar1AggregationParam::try_from_prefixes(prefixes.clone()).unwrap();
        for agg_id in 0..2usize {
            let mk = || Prng::<Field64, _>::from_seed_stream(XofTurboShake128::seed_stream(&[7u8; 32], &[b"corr".as_slice()], &[]));
            let mut corr = mk();
            let mut corr_ref = mk();
            let (a, b, c) = (corr_ref.get(), corr_ref.get(), corr_ref.get());
            let r = vdaf.eval_and_sketch::<Field64>(&vk, b"ctx", agg_id, &nonce, &agg_param, &public_share, &input_shares[agg_id].idpf_key, &mut corr);
            let (out, sketch) = match r { Ok(x) => x, Err(e) => { println!("COUNTEREXAMPLE Poplar1::eval_and_sketch refuses an honest report with 130 prefixes: {}", e); return; } };
            let mut vr: Prng<Field64, _> = vdaf.init_prng(&vk, DST_VERIFY_RANDOMNESS, b"ctx", [nonce.as_slice(), agg_param.level.to_be_bytes().as_slice()]);
            let idpf = Idpf::<Poplar1IdpfValue<Field64>, Poplar1IdpfValue<Field255>>::new((), ());
            let (mut s0, mut s1, mut s2) = (a, b, c);
            for (k, prefix) in prefixes.iter().enumerate() {
                let share = Poplar1IdpfValue::<Field64>::from(idpf.eval(agg_id, &public_share, &input_shares[agg_id].idpf_key, prefix, b"ctx", &nonce, &mut NoCache::new()).unwrap());
                let rk = vr.get();
                s0 += share.0[0] * rk;
                s1 += share.0[0] * rk * rk;
                s2 += share.0[1] * rk;
                if out.get(k) != Some(&share.0[0]) { println!("COUNTEREXAMPLE Poplar1::eval_and_sketch (aggregator {}, 130 prefixes): output share element {} is not the IDPF data share of prefix {}", agg_id, k, k); return; }
            }
            if out.len() != 130 || sketch.len() != 3 || sketch[0] != s0 || sketch[1] != s1 || sketch[2] != s2 {
                println!("COUNTEREXAMPLE Poplar1::eval_and_sketch (aggregator {}, 130 candidate prefixes): the sketch is not (a + sum data_k r_k, b + sum data_k r_k^2, c + sum auth_k r_k) with one verification-randomness element per prefix drawn in order from a single stream", agg_id);
                return;
            }
        }
    }

    // unit poplar1_agg: Collector::unshard folds the aggregate shares into ZERO(level, number of prefixes) of the collection's own
    // aggregation parameter: shares of another tree level or another length are refused wherever they stand; matching shares sum.
    #[test]
    fn oracle_unshard_mismatch() {
        use crate::vdaf::Collector;
        use crate::field::{Field64, Field255};
        let bits = 4usize;
        let vdaf = Poplar1::new_turboshake128(bits);
        let pfx = |level: usize, n: usize| -> Poplar1AggregationParam {
            let mut v: Vec<IdpfInput> = (0..n).map(|k| IdpfInput::from_bools(&(0..=level).map(|b| (k >> (level - b)) & 1 == 1).collect::<Vec<bool>>())).collect();
            v.sort(); v.dedup();
            Poplar1AggregationParam::try_from_prefixes(v).unwrap()
        };
        let inner = |len: usize, s: u64| Poplar1FieldVec::Inner((0..len).map(|i| Field64::from(s + i as u64)).collect());
        let leaf = |len: usize, s: u64| Poplar1FieldVec::Leaf((0..len).map(|i| Field255::from(s + i as u64)).collect());
        // (level, number of prefixes, shares, should be accepted, description)
        let inner_param = pfx(1, 2);
        let leaf_param = pfx(bits - 1, 2);
        let cases: Vec<(&Poplar1AggregationParam, Vec<Poplar1FieldVec>, Option<Vec<u64>>, &str)> = vec![
            (&inner_param, vec![inner(2, 1), inner(2, 10)], Some(vec![11, 13]), "two matching inner shares"),
            (&leaf_param, vec![leaf(2, 1), leaf(2, 10)], Some(vec![11, 13]), "two matching leaf shares"),
            (&inner_param, vec![], Some(vec![0, 0]), "no shares"),
            (&leaf_param, vec![inner(2, 1), inner(2, 10)], None, "inner-level shares for a leaf-level collection"),
            (&inner_param, vec![leaf(2, 1), leaf(2, 10)], None, "leaf-level shares for an inner-level collection"),
            (&inner_param, vec![inner(3, 1), inner(3, 10)], None, "3-entry shares for a 2-prefix collection"),
            (&inner_param, vec![inner(1, 1)], None, "a single 1-entry share for a 2-prefix collection"),
            (&inner_param, vec![inner(2, 1), inner(3, 10)], None, "a second share of the wrong length"),
            (&inner_param, vec![inner(2, 1), leaf(2, 10)], None, "a second share of the wrong level"),
        ];
        for (param, shares, want, what) in cases {
            let n = shares.len();
            let r = std::panic::catch_unwind(|| vdaf.unshard(param, shares, n));
            match (r, want) {
                (Err(_), _) => println!("COUNTEREXAMPLE Poplar1 unshard panics on {}", what),
                (Ok(Ok(got)), Some(w)) => if got != w { println!("COUNTEREXAMPLE Poplar1 unshard of {} gives {:?}, the element-wise sum is {:?}", what, got, w); },
                (Ok(Err(e)), Some(_)) => println!("COUNTEREXAMPLE Poplar1 unshard refuses {}: {}", what, e),
                (Ok(Ok(got)), None) => println!("COUNTEREXAMPLE Poplar1 unshard accepts {} (level {}, {} prefixes) and returns {:?}: aggregate shares of a mismatched level or length are not refused", what, param.level(), param.prefixes().len(), got),
                (Ok(Err(_)), None) => {}
            }
        }
    }

    // unit poplar1_aggparam: try_from_prefixes admits prefixes of every length 1..=65536 bits (levels 0..=65535) and nothing longer
    #[test]
    fn oracle_agg_param_lengths() {
        for len in [1usize, 2, 3, 255, 256, 257, 65534, 65535, 65536, 65537, 65538, 70000] {
            let a = IdpfInput::from_bools(&vec![false; len]);
            let mut bits = vec![false; len]; bits[len - 1] = true;
            let b = IdpfInput::from_bools(&bits);
            let r = std::panic::catch_unwind(|| Poplar1AggregationParam::try_from_prefixes(vec![a.clone(), b.clone()]));
            match r {
                Err(_) => println!("COUNTEREXAMPLE Poplar1AggregationParam::try_from_prefixes panics on two prefixes of {} bits", len),
                Ok(Ok(p)) => {
                    if len > 65536 { println!("COUNTEREXAMPLE Poplar1AggregationParam::try_from_prefixes accepts prefixes of {} bits (more than 65536)", len); }
                    else if p.level() != len - 1 || p.prefixes().len() != 2 { println!("COUNTEREXAMPLE Poplar1AggregationParam::try_from_prefixes: prefixes of {} bits give level {} (want {})", len, p.level(), len - 1); }
                }
                Ok(Err(e)) => if len <= 65536 { println!("COUNTEREXAMPLE Poplar1AggregationParam::try_from_prefixes refuses two sorted distinct prefixes of {} bits (level {} is admissible): {}", len, len - 1, e); },
            }
        }
    }
}
