// Executable form of the aggregation contracts (unit field_vec), evaluated on the REAL code.  Aggregator::aggregate over
// Prio3SumVec output shares: the result is Ok exactly when EVERY share has the instance's output length, and then it is the
// element-wise sum starting from zero; a malformed share is refused wherever it stands in the batch (first, middle, last,
// alone), so the result does not depend on how a batch is partitioned.  Collector::unshard sums every aggregate share.
// Injected into src/vdaf/prio3.rs.
#[cfg(test)]
mod verif_oracle_agg {
    use super::*;
    use crate::field::Field128;
    use crate::vdaf::{Aggregator, AggregateShare, Collector, OutputShare};

    fn share(len: usize, seed: u64) -> Vec<Field128> { (0..len).map(|i| Field128::from((seed * 1000 + i as u64) as u128)).collect() }

    #[test]
    fn oracle_aggregate() {
        let vdaf = Prio3::new_sum_vec(2, 8, 3, 3).unwrap();
        let good = 3usize;
        // every batch of up to 3 shares with each share's length in {good, good - 1, good + 1, 0}
        let lens = [good, good - 1, good + 1, 0];
        for n in 0..=3usize {
            let mut idx = vec![0usize; n];
            loop {
                let batch: Vec<Vec<Field128>> = (0..n).map(|k| share(lens[idx[k]], k as u64 + 1)).collect();
                let all_good = batch.iter().all(|s| s.len() == good);
                let r = std::panic::catch_unwind(|| vdaf.aggregate(&(), batch.iter().cloned().map(OutputShare::from)));
                let shape: Vec<usize> = batch.iter().map(|s| s.len()).collect();
                match r {
                    Err(_) => println!("COUNTEREXAMPLE Aggregator::aggregate panics for Prio3SumVec(output_len 3) on a batch with share lengths {:?}", shape),
                    Ok(Ok(agg)) => {
                        if !all_good { println!("COUNTEREXAMPLE Aggregator::aggregate accepts a batch with share lengths {:?} (Prio3SumVec output_len 3): a malformed output share is not refused, so the result depends on the partition of the batch", shape); }
                        else {
                            let mut want = vec![Field128::zero(); good];
                            for s in &batch { for (w, x) in want.iter_mut().zip(s) { *w += *x; } }
                            if agg != AggregateShare::from(want) { println!("COUNTEREXAMPLE Aggregator::aggregate of {} well-formed shares is not their element-wise sum", n); }
                        }
                    }
                    Ok(Err(_)) => if all_good { println!("COUNTEREXAMPLE Aggregator::aggregate refuses a well-formed batch of {} shares", n); },
                }
                // next index vector
                let mut k = 0;
                while k < n { idx[k] += 1; if idx[k] < lens.len() { break; } idx[k] = 0; k += 1; }
                if k == n { break; }
            }
        }
        // unshard: sum of all aggregate shares (any count), then decode
        for n in 1..=3usize {
            let shares: Vec<Vec<Field128>> = (0..n).map(|k| share(good, k as u64 + 1)).collect();
            let mut want = vec![Field128::zero(); good];
            for s in &shares { for (w, x) in want.iter_mut().zip(s) { *w += *x; } }
            let want: Vec<u128> = want.into_iter().map(u128::from).collect();
            match vdaf.unshard(&(), shares.into_iter().map(AggregateShare::from), 1) {
                Ok(got) => if got != want { println!("COUNTEREXAMPLE Collector::unshard of {} aggregate shares is not the decoded element-wise sum", n); },
                Err(e) => println!("COUNTEREXAMPLE Collector::unshard refuses {} well-formed aggregate shares: {}", n, e),
            }
        }
    }
}
