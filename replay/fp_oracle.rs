// Executable form of the fp/ops.rs contracts (units fp_ops*, fp_mul128, fp_pow*), evaluated on the REAL
// functions over a boundary lattice plus VERIF_SEED-seeded random operands.  Injected into src/fp.rs.
// Prints `COUNTEREXAMPLE <fn> <args> got=<r> want=<spec>` for every violated postcondition.
#[cfg(test)]
mod verif_oracle_fp {
    use super::*;
    use num_bigint::BigUint;

    fn lattice(p: u128, bits: u32) -> Vec<u128> {
        let mut v = vec![0u128, 1, 2, 3, p - 1, p - 2, p / 2, p / 2 + 1, p, p.wrapping_add(1)];
        for k in 0..bits {
            let b = 1u128 << k;
            v.push(b); v.push(b.wrapping_sub(1)); v.push(b.wrapping_add(1));
            v.push(p.wrapping_sub(b)); v.push(p.wrapping_add(b));
        }
        let max = if bits == 128 { u128::MAX } else { (1u128 << bits) - 1 };
        v.push(max); v.push(max - 1);
        v.iter().map(|x| x & max).collect()
    }
    fn rng_vals(n: usize, bits: u32) -> Vec<u128> {
        let mut s: u128 = std::env::var("VERIF_SEED").ok().and_then(|s| s.parse().ok()).unwrap_or(0u128) ^ 0x9E3779B97F4A7C15F39CC0605CEDC834;
        let max = if bits == 128 { u128::MAX } else { (1u128 << bits) - 1 };
        (0..n).map(|_| { s ^= s << 13; s ^= s >> 7; s ^= s << 17; s = s.wrapping_mul(0x2545F4914F6CDD1D2545F4914F6CDD1D | 1); s & max }).collect()
    }

    macro_rules! oracle {
        ($name:ident, $fp:ident, $w:ty, $bits:expr) => {
            #[test]
            fn $name() {
                let p = <$fp as FieldParameters<$w>>::PRIME as u128;
                let pb = BigUint::from(p);
                let r: BigUint = BigUint::from(1u8) << ($bits as usize);
                let mut vals = lattice(p, $bits);
                vals.extend(rng_vals(200, $bits));
                let mut bad = 0;
                for &x in &vals { for &y in &vals {
                    let (xw, yw) = (x as $w, y as $w);
                    if y < p {
                        let got = <$fp as FieldOps<$w>>::mul(xw, yw) as u128;
                        let ok = got < p && (BigUint::from(got) * &r) % &pb == (BigUint::from(x) * BigUint::from(y)) % &pb;
                        if !ok && bad < 8 { bad += 1; println!("COUNTEREXAMPLE {}::mul x={} y={} got={}", stringify!($fp), x, y, got); }
                    }
                    if x < p && y < p {
                        let got = <$fp as FieldOps<$w>>::add(xw, yw) as u128;
                        let want = ((BigUint::from(x) + BigUint::from(y)) % &pb).to_string();
                        if got.to_string() != want && bad < 8 { bad += 1; println!("COUNTEREXAMPLE {}::add x={} y={} got={} want={}", stringify!($fp), x, y, got, want); }
                        let got = <$fp as FieldOps<$w>>::sub(xw, yw) as u128;
                        let want = ((BigUint::from(x) + &pb - BigUint::from(y)) % &pb).to_string();
                        if got.to_string() != want && bad < 8 { bad += 1; println!("COUNTEREXAMPLE {}::sub x={} y={} got={} want={}", stringify!($fp), x, y, got, want); }
                    }
                } }
                // pow / inv / montgomery / residue on a thinner set
                let thin: Vec<u128> = vals.iter().cloned().filter(|v| *v < p).take(60).collect();
                for &x in &thin {
                    let m = <$fp as FieldOps<$w>>::montgomery(x as $w) as u128;
                    if BigUint::from(m) != (BigUint::from(x) * &r) % &pb { println!("COUNTEREXAMPLE {}::montgomery x={} got={}", stringify!($fp), x, m); }
                    let back = <$fp as FieldOps<$w>>::residue(m as $w) as u128;
                    if back != x { println!("COUNTEREXAMPLE {}::residue x={} got={}", stringify!($fp), m, back); }
                    for &e in thin.iter().take(12) {
                        let got = <$fp as FieldOps<$w>>::pow(m as $w, e as $w) as u128;
                        let want = (BigUint::from(x).modpow(&BigUint::from(e), &pb) * &r) % &pb;
                        if BigUint::from(got) != want { println!("COUNTEREXAMPLE {}::pow x={} (mont {}) e={} got={} want={}", stringify!($fp), x, m, e, got, want); }
                    }
                    if x != 0 {
                        let got = <$fp as FieldOps<$w>>::inv(m as $w) as u128;
                        let want = (BigUint::from(x).modpow(&(&pb - BigUint::from(2u8)), &pb) * &r) % &pb;
                        if BigUint::from(got) != want { println!("COUNTEREXAMPLE {}::inv x={} got={} want={}", stringify!($fp), x, got, want); }
                    }
                }
            }
        };
    }
    oracle!(oracle_fp32, FP32, u32, 32);
    oracle!(oracle_fp64, FP64, u64, 64);
    oracle!(oracle_fp128, FP128, u128, 128);
}
