// Executable form of the Field255 byte-conversion contracts (unit field255_bytes), evaluated on the REAL code at the boundary
// strings (0, 1, p-1, p, p+1, 2^255-1, 2^255, 2^255+1, 2^255+p-1, 2^256-1) and lengths 31 / 32 / 33: the decoding conversions
// (TryFrom<&[u8]>, Decode, decode_fieldvec) accept exactly the 32-byte little-endian integers below p - never a set top bit - and
// what they accept re-encodes to the same bytes; try_from_random clears bit 255 first (sampling only).
// Injected into src/field/field255.rs.
#[cfg(test)]
mod verif_oracle_f255 {
    use super::*;
    use crate::codec::{Decode, Encode};
    use crate::field::{decode_fieldvec, FieldElement};
    use num_bigint::BigUint;
    use std::io::Cursor;

    fn p() -> BigUint { (BigUint::from(1u8) << 255usize) - BigUint::from(19u8) }
    fn le32(x: &BigUint) -> [u8; 32] { let mut b = x.to_bytes_le(); b.resize(32, 0); let mut a = [0u8; 32]; a.copy_from_slice(&b[..32]); a }
    fn probes() -> Vec<BigUint> {
        let one = BigUint::from(1u8);
        let t255 = &one << 255usize;
        vec![BigUint::from(0u8), one.clone(), BigUint::from(18u8), BigUint::from(19u8), p() - &one, p(), p() + &one, &t255 - &one, t255.clone(), &t255 + &one,
             &t255 + BigUint::from(5u8), &t255 + p() - &one, &t255 + p(), (&one << 256usize) - &one, (&one << 248usize) * BigUint::from(0x80u8) + BigUint::from(7u8)]
    }

    #[test]
    fn oracle_decode_is_canonical() {
        for x in probes() {
            let bytes = le32(&x);
            let canonical = x < p();
            // TryFrom<&[u8]> (the path of decode_fieldvec), at lengths 31, 32, 33
            for len in [31usize, 32, 33] {
                let mut buf = bytes.to_vec(); buf.resize(len.max(32), 0xaa); buf.truncate(len);
                let r = Field255::try_from(&buf[..]);
                let want_ok = len >= 32 && canonical;
                match r {
                    Ok(e) => {
                        if !want_ok { println!("COUNTEREXAMPLE Field255::try_from(&[u8]) accepts the {}-byte string {:02x?} (little-endian value {}): a non-canonical encoding (value >= p or bit 255 set) is not refused", len, &buf[..], x); }
                        let back: [u8; 32] = e.into();
                        if back[..] != buf[..32] { println!("COUNTEREXAMPLE Field255::try_from(&[u8]) accepts {:02x?} which re-encodes to {:02x?}: two accepted encodings of one element", &buf[..32], back); }
                    }
                    Err(_) => if want_ok { println!("COUNTEREXAMPLE Field255::try_from(&[u8]) refuses the canonical encoding of {}", x); },
                }
            }
            // Decode
            match Field255::get_decoded(&bytes) {
                Ok(e) => { if !canonical { println!("COUNTEREXAMPLE Field255::decode accepts the non-canonical string of value {}", x); }
                           if e.get_encoded().unwrap() != bytes.to_vec() { println!("COUNTEREXAMPLE Field255::decode accepts {:02x?} which re-encodes differently", bytes); } }
                Err(_) => if canonical { println!("COUNTEREXAMPLE Field255::decode refuses the canonical encoding of {}", x); },
            }
            // decode_fieldvec: second of two elements
            let mut two = le32(&BigUint::from(3u8)).to_vec(); two.extend_from_slice(&bytes);
            match decode_fieldvec::<Field255>(2, &mut Cursor::new(&two[..])) {
                Ok(v) => { if !canonical { println!("COUNTEREXAMPLE decode_fieldvec::<Field255> accepts a vector whose second element is the non-canonical string of value {} (decoded as {:?})", x, v[1]); } }
                Err(_) => if canonical { println!("COUNTEREXAMPLE decode_fieldvec::<Field255> refuses a vector of canonical elements (second = {})", x); },
            }
            // sampling: bit 255 is cleared first
            let masked = &x % (BigUint::from(1u8) << 255usize);
            match Field255::try_from_random(&bytes) {
                Ok(e) => { if masked >= p() { println!("COUNTEREXAMPLE Field255::try_from_random accepts a candidate whose low 255 bits are >= p ({})", x); }
                           let back: [u8; 32] = e.into();
                           if back != le32(&masked) { println!("COUNTEREXAMPLE Field255::try_from_random({}) is not the element given by the low 255 bits", x); } }
                Err(_) => if masked < p() { println!("COUNTEREXAMPLE Field255::try_from_random refuses a candidate whose low 255 bits are < p ({})", x); },
            }
        }
    }
}
