// Executable form of the ntt_safe / poly_kernels contracts, evaluated on the REAL functions: error reporting, no
// panic for any admissible size, frame, inverse-finish permutation, Horner value.  Injected into src/ntt.rs.
#[cfg(test)]
mod verif_oracle_ntt {
    use super::*;
    use crate::field::{Field64, FieldElement, FieldElementWithInteger, NttFriendlyFieldElement};
    use crate::polynomial::poly_eval_monomial;
    use std::panic::catch_unwind;

    fn sample(n: usize, seed: u64) -> Vec<Field64> { (0..n).map(|i| Field64::from(seed.wrapping_mul(6364136223846793005).wrapping_add((i as u64).wrapping_mul(1442695040888963407)))).collect() }

    #[test]
    fn oracle_ntt_contracts() {
        let sentinel = Field64::from(0xDEAD_BEEFu64);
        for &size in &[1usize, 2, 3, 4, 5, 7, 8, 16, 64, 1000, 1024, 1 << 19, (1 << 19) + 1, 1 << 20, (1 << 20) + 1, 1 << 21] {
            for &set_s in &[false, true] {
                for &extra in &[0usize, 3] {
                    for &short in &[false, true] {
                        if short && size <= (1 << 20) && size > 4096 { continue; }
                        let cap = if short { size - 1 } else { size + extra };
                        let inp = sample(std::cmp::max(1, std::cmp::min(size, 2048)), 7);
                        let mut outp = vec![sentinel; cap];
                        let r = catch_unwind(move || { let r = ntt_internal(&mut outp, &inp, size, set_s); (r.map_err(|e| format!("{e:?}")), outp) });
                        let pow2 = size.is_power_of_two();
                        let want: Result<(), &str> = if size > cap { Err("OutputTooSmall") }
                            else if (set_s && size > (1 << 19)) || size > (1 << 20) { Err("SizeTooLarge") }
                            else if !pow2 { Err("SizeInvalid") } else { Ok(()) };
                        match r {
                            Err(_) => println!("COUNTEREXAMPLE ntt_internal size={} set_s={} outp.len()={} panicked (want {:?})", size, set_s, cap, want),
                            Ok((got, outp)) => {
                                let same = match (&got, &want) { (Ok(()), Ok(())) => true, (Err(a), Err(b)) => a.as_str() == *b, _ => false };
                                if !same { println!("COUNTEREXAMPLE ntt_internal size={} set_s={} outp.len()={} returned {:?} want {:?}", size, set_s, cap, got, want); }
                                if outp.iter().skip(size).any(|x| *x != sentinel) { println!("COUNTEREXAMPLE ntt_internal size={} set_s={} wrote beyond `size`", size, set_s); }
                            }
                        }
                    }
                }
            }
        }
        // ntt_inv_finish: out[i] = in[(size - i) mod size] * inv, frame
        for &size in &[2usize, 4, 8, 64] {
            let inp = sample(size + 2, 11);
            let mut outp = inp.clone();
            let inv = Field64::from(size as u64).inv();
            ntt_inv_finish(&mut outp, size, inv);
            for i in 0..size { if outp[i] != inp[(size - i) % size] * inv { println!("COUNTEREXAMPLE ntt_inv_finish size={} index {}", size, i); break; } }
            if outp[size] != inp[size] || outp[size + 1] != inp[size + 1] { println!("COUNTEREXAMPLE ntt_inv_finish size={} wrote beyond size", size); }
        }
        // poly_eval_monomial == sum a_i x^i
        for &n in &[0usize, 1, 2, 3, 9] {
            let p = sample(n, 3);
            let x = Field64::from(0x1234_5678_9ABCu64);
            let mut want = Field64::zero();
            for i in 0..n { want += p[i] * x.pow(i as u64); }
            if poly_eval_monomial(&p, x) != want { println!("COUNTEREXAMPLE poly_eval_monomial len={} differs from sum a_i x^i", n); }
        }
    }
}
