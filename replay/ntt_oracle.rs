// Executable form of the ntt_safe / poly_kernels contracts, evaluated on the REAL functions: error reporting, no
// panic for any admissible size, frame, inverse-finish permutation, Horner value.  Injected into src/ntt.rs.
#[cfg(test)]
mod verif_oracle_ntt {
    use super::*;
    use crate::field::{Field64, FieldElement, FieldElementWithInteger, NttFriendlyFieldElement};
    use crate::polynomial::poly_eval_monomial;
    use std::panic::catch_unwind;

    fn sample(n: usize, seed: u64) -> Vec<Field64> { (0..n).map(|i| Field64::from(seed.wrapping_mul(6364136223846793005).wrapping_add((i as u64).wrapping_mul(1442695040888963407)))).collect() }

    #[test]
    fn oracle_ntt_contracts() {
        let sentinel = Field64::from(0xDEAD_BEEFu64);
        for &size in &[1usize, 2, 3, 4, 5, 7, 8, 16, 64, 1000, 1024, 1 << 19, (1 << 19) + 1, 1 << 20, (1 << 20) + 1, 1 << 21] {
            for &set_s in &[false, true] {
                for &extra in &[0usize, 3] {
                    for &short in &[false, true] {
                        if short && size <= (1 << 20) && size > 4096 { continue; }
                        let cap = if short { size - 1 } else { size + extra };
                        let inp = sample(std::cmp::max(1, std::cmp::min(size, 2048)), 7);
                        let mut outp = vec![sentinel; cap];
                        let r = catch_unwind(move || { let r = ntt_internal(&mut outp, &inp, size, set_s); (r.map_err(|e| format!("{e:?}")), outp) });
                        let pow2 = size.is_power_of_two();
                        let want: Result<(), &str> = if size > cap { Err("OutputTooSmall") }
                            else if (set_s && size > (1 << 19)) || size > (1 << 20) { Err("SizeTooLarge") }
                            else if !pow2 { Err("SizeInvalid") } else { Ok(()) };
                        match r {
                            Err(_) => println!("COUNTEREXAMPLE ntt_internal size={} set_s={} outp.len()={} panicked (want {:?})", size, set_s, cap, want),
                            Ok((got, outp)) => {
                                let same = match (&got, &want) { (Ok(()), Ok(())) => true, (Err(a), Err(b)) => a.as_str() == *b, _ => false };
                                if !same { println!("COUNTEREXAMPLE ntt_internal size={} set_s={} outp.len()={} returned {:?} want {:?}", size, set_s, cap, got, want); }
                                if outp.iter().skip(size).any(|x| *x != sentinel) { println!("COUNTEREXAMPLE ntt_internal size={} set_s={} wrote beyond `size`", size, set_s); }
                            }
                        }
                    }
                }
            }
        }
        // the statement of C10 itself, executed: forward transform == evaluation of the (zero-padded) polynomial at the powers
        // of the principal root (shifted by the next-order root when set_s), for short inputs and a STALE output buffer;
        // the inverse transform undoes it.  (Not decided deductively - DESIGN section 4 C10 - but any input found here is a
        // genuine counterexample on the real code.)
        for &size in &[1usize, 2, 4, 8, 16, 32] {
            let mut l = 0; while (1usize << l) < size { l += 1; }
            for inp_len in 1..=size {
                for &set_s in &[false, true] {
                    let inp = sample(inp_len, 5);
                    let mut outp = vec![sentinel; size + 1];
                    if ntt_internal(&mut outp, &inp, size, set_s).is_err() { println!("COUNTEREXAMPLE ntt_internal size={} inp_len={} set_s={} returned Err", size, inp_len, set_s); continue; }
                    let w = Field64::root(l).unwrap();
                    let s = if set_s { Field64::root(l + 1).unwrap() } else { Field64::one() };
                    let mut x = s;
                    for i in 0..size {
                        if outp[i] != poly_eval_monomial(&inp, x) {
                            println!("COUNTEREXAMPLE ntt_internal size={} inp_len={} set_s={} (output buffer pre-filled with a non-zero value): output[{}] differs from the polynomial evaluated at s*w^{}", size, inp_len, set_s, i, i);
                            break;
                        }
                        x *= w;
                    }
                    if inp_len == size && !set_s {
                        let mut back = vec![sentinel; size];
                        if ntt_inv(&mut back, &outp[..size], size).is_err() || back != inp { println!("COUNTEREXAMPLE ntt_inv(ntt(v)) != v at size {}", size); }
                    }
                }
            }
        }
        // ntt_inv_finish: out[i] = in[(size - i) mod size] * inv, frame
        for &size in &[2usize, 4, 8, 64] {
            let inp = sample(size + 2, 11);
            let mut outp = inp.clone();
            let inv = Field64::from(size as u64).inv();
            ntt_inv_finish(&mut outp, size, inv);
            for i in 0..size { if outp[i] != inp[(size - i) % size] * inv { println!("COUNTEREXAMPLE ntt_inv_finish size={} index {}", size, i); break; } }
            if outp[size] != inp[size] || outp[size + 1] != inp[size + 1] { println!("COUNTEREXAMPLE ntt_inv_finish size={} wrote beyond size", size); }
        }
        // poly_eval_monomial == sum a_i x^i
        for &n in &[0usize, 1, 2, 3, 9] {
            let p = sample(n, 3);
            let x = Field64::from(0x1234_5678_9ABCu64);
            let mut want = Field64::zero();
            for i in 0..n { want += p[i] * x.pow(i as u64); }
            if poly_eval_monomial(&p, x) != want { println!("COUNTEREXAMPLE poly_eval_monomial len={} differs from sum a_i x^i", n); }
        }
    }

    // Executable form of the poly_eval_lagrange_batched contract (unit lagrange_eval): the Lagrange-basis evaluation must equal the value of the
    // interpolant (inverse transform + Horner) at EVERY point - random points, every node of the polynomial's own domain, and the nodes of the
    // doubled domain (primitive 2n-th roots, which Flp::query accepts as query randomness).
    #[test]
    fn oracle_lagrange_eval() {
        use crate::polynomial::{poly_eval_lagrange_batched, poly_eval_monomial};
        for d in 0..=6usize {
            let n = 1usize << d;
            let p0 = sample(n, 11 + d as u64);
            let p1 = sample(n, 97 + d as u64);
            let c0 = get_ntt_inv(&p0, n).unwrap();
            let c1 = get_ntt_inv(&p1, n).unwrap();
            let w = Field64::root(d).unwrap();
            let w2 = Field64::root(d + 1).unwrap();
            let mut points: Vec<(String, Field64)> = vec![("a random point".into(), Field64::from(0x1234_5678_9abc_def1u64)), ("zero".into(), Field64::zero()), ("one".into(), Field64::one())];
            let mut x = Field64::one();
            for k in 0..n { points.push((format!("node w^{} of its own domain", k), x)); x *= w; }
            let mut x2 = w2;
            for k in 0..n.min(8) { points.push((format!("node w_2n^{} of the doubled domain", 2 * k + 1), x2)); x2 *= w; }
            for (what, x) in points {
                let got = poly_eval_lagrange_batched(&[p0.clone(), p1.clone()], x);
                let want = [poly_eval_monomial(&c0, x), poly_eval_monomial(&c1, x)];
                if got.len() != 2 || got[0] != want[0] || got[1] != want[1] {
                    println!("COUNTEREXAMPLE poly_eval_lagrange_batched: {} polynomials of {} Lagrange-basis values evaluated at {}: result differs from the value of the interpolating polynomial (inverse transform + Horner)", 2, n, what);
                    return;
                }
            }
        }
    }
}
