import sys, os, json, importlib
sys.path.insert(0,'/verif/engine'); sys.path.insert(0,'/verif/units')
mod, fn = sys.argv[1].split(':')
args = [int(a) if a.isdigit() else a for a in sys.argv[2:]]
u = getattr(importlib.import_module(mod), fn)(*args)
r = u.run('/var/tmp/vt/out')
print(r['status'], r.get('reason',''), r.get('verus'))
for f in r.get('failed',[]):
    print('FAILED', f['obligation'], f['message']); print(f['rendered'])
print(len(r.get('obligations',[])), 'obligations')
