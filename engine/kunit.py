"""Kani route (DESIGN §3.3): the real crate, copied to a scratch directory, with harness modules
(`#[cfg(kani)] mod verif_* { .. }`) appended to the source files whose private items they need.

Harness files live in /verif/harness/*.rs and start with directive comments:
    //@inject src/field.rs
    //@harness <fn name> | <complete|bounded(..)> | <clause decided>
The file text after the directives is appended verbatim to the named source file of the scratch copy.
"""
import json
import os
import re
import shutil
import subprocess
import time

REPO = os.environ.get('VERIF_REPO', '/repo')
HARNESS_DIR = os.path.join(os.path.dirname(os.path.abspath(__file__)), '..', 'harness')


def scratch_root():
    base = os.environ.get('VERIF_SCRATCH', '/var/tmp')
    d = os.path.join(base, 'prio-verif.%d' % os.getpid())
    os.makedirs(d, exist_ok=True)
    return d


def parse_harness_file(path):
    txt = open(path).read()
    inject = None
    harnesses = []
    oracle = None
    tolerate = []
    for l in txt.split('\n'):
        mm = re.match(r'//@tolerate\s+(\S+)', l)       # //@tolerate <function>: failed checks located in that (tool-library) function are not counted
        if mm:
            tolerate.append(mm.group(1))
        mm = re.match(r'//@oracle\s+(\S+)\s+(\S+)\s+(\S+)', l)     # //@oracle <file in replay/> <test path> <inject target>
        if mm:
            oracle = {'file': mm.group(1), 'test': mm.group(2), 'inject': mm.group(3)}
        mm = re.match(r'//@inject\s+(\S+)', l)
        if mm:
            inject = mm.group(1)
        mm = re.match(r'//@harness\s+(\w+)\s*\|\s*([^|]+?)\s*\|\s*(.*)$', l)
        if mm:
            harnesses.append({'name': mm.group(1), 'label': mm.group(2), 'clause': mm.group(3).strip(), 'file': os.path.basename(path)})
    if inject is None:
        raise RuntimeError('%s: no //@inject directive' % path)
    for h in harnesses:
        h['oracle'] = oracle
        h['tolerate'] = tolerate
        if not re.search(r'\b%s\b' % h['name'], txt.split('#[cfg(kani)]', 1)[-1]):
            raise RuntimeError('%s: //@harness %s not defined in the file' % (path, h['name']))
    stubs = sorted(set(re.findall(r'#\[kani::stub\(\s*([^,]+?)\s*,', txt)))
    return {'path': path, 'inject': inject, 'text': txt, 'harnesses': harnesses, 'stubs': stubs}


def prepare_scratch(files, tag):
    root = os.path.join(scratch_root(), tag)
    if os.path.exists(root):
        shutil.rmtree(root)
    os.makedirs(root)
    dst = os.path.join(root, 'repo')
    subprocess.run(['rsync', '-a', '--exclude', 'target', '--exclude', '.git', REPO + '/', dst + '/'], check=True)
    os.makedirs(os.path.join(dst, '.cargo'), exist_ok=True)
    with open(os.path.join(dst, '.cargo', 'config.toml'), 'w') as f:
        f.write('[net]\noffline = true\n')
    for hf in files:
        target = os.path.join(dst, hf['inject'])
        if not os.path.exists(target):
            raise RuntimeError('inject target %s missing' % hf['inject'])
        with open(target, 'a') as f:
            f.write('\n\n// ---- injected by /verif/engine/kunit.py from %s ----\n' % os.path.basename(hf['path']))
            f.write(hf['text'])
    return root, dst


_RES_RX = re.compile(r'Checking harness ([\w:]+)\.\.\.')


def run_kani(file_names, only=None, tag='k', timeout_harness=int(__import__('os').environ.get('KT','300')), jobs=16, extra_args=(), keep=False,
             overall_timeout=7200):
    """Run the harnesses of the given harness files.  Returns (results: {harness: {...}}, meta)."""
    files = [parse_harness_file(os.path.join(HARNESS_DIR, n)) for n in file_names]
    all_h = [h for f in files for h in f['harnesses']]
    if only:
        all_h = [h for h in all_h if h['name'] in only]
    t0 = time.time()
    root, dst = prepare_scratch(files, tag)
    export = os.path.join(root, 'kani.json')
    cmd = ['cargo', 'kani', '--features', 'experimental', '-Z', 'stubbing', '-Z', 'function-contracts',
           '-Z', 'unstable-options', '--harness-timeout', '%ds' % timeout_harness, '--export-json', export,
           '--target-dir', os.path.join(root, 'target'), '-j', str(jobs), '--output-format', 'terse']
    for h in all_h:
        cmd += ['--harness', h['name']]
    cmd += list(extra_args)
    env = dict(os.environ, CARGO_NET_OFFLINE='true')
    env.pop('RUSTUP_TOOLCHAIN', None)
    try:
        p = subprocess.run(cmd, cwd=dst, env=env, capture_output=True, text=True, timeout=overall_timeout)
        out = p.stdout + '\n' + p.stderr
        rc = p.returncode
    except subprocess.TimeoutExpired as e:
        out = (e.stdout or b'').decode('utf8', 'replace') + '\n' + (e.stderr or b'').decode('utf8', 'replace') if isinstance(e.stdout, bytes) else str(e.stdout) + str(e.stderr)
        rc = -9
    results = parse_output(out, all_h)
    js = None
    if os.path.exists(export):
        try:
            js = json.load(open(export))
        except ValueError:
            js = None
    meta = {'cmd': ' '.join(cmd).replace(root, '$SCRATCH'), 'rc': rc, 'wall_s': round(time.time() - t0, 1),
            'scratch': root, 'raw_tail': out[-4000:], 'stubs': sorted(set(s for f in files for s in f['stubs'])),
            'files': [{'file': os.path.basename(f['path']), 'inject': f['inject']} for f in files]}
    if js is not None:
        merge_json(results, js)
    for r in results.values():
        if r['status'] == 'MISSING' and re.search(r'timed out|Timeout', out):
            r['status'] = 'TIMEOUT'
    compile_error = ('error: could not compile' in out or re.search(r'^error(\[E\d+\])?:', out, re.M)) and not any(
        r.get('status') in ('SUCCESSFUL', 'FAILED') for r in results.values())
    meta['compile_error'] = bool(compile_error)
    meta['out'] = out
    if not keep:
        shutil.rmtree(root, ignore_errors=True)
        try:
            os.rmdir(scratch_root())
        except OSError:
            pass
    return results, meta


def parse_output(out, harnesses):
    """Fallback parse of the (thread-interleaved) terse output; the JSON export overrides it."""
    res = {h['name']: dict(h, status='MISSING', failed_checks=[], checks=None, covers=None) for h in harnesses}
    cur = {}
    for mm in re.finditer(r'(?:Thread (\d+): )?Checking harness ([\w:]+)\.\.\.|(?:Thread (\d+): )?\s*\n?VERIFICATION RESULT:(.*?)Verification Time: ([\d.]+)s|(?:Thread (\d+): )?[^\n]*(timed out|Timeout)[^\n]*', out, re.S):
        if mm.group(2):
            cur[mm.group(1) or '0'] = mm.group(2).split('::')[-1]
        elif mm.group(4) is not None:
            name = cur.get(mm.group(3) or '0')
            if name in res:
                blk = mm.group(4)
                m2 = re.search(r'VERIFICATION:-\s*(\w+)', blk)
                if m2:
                    res[name]['status'] = m2.group(1)
                res[name]['time_s'] = float(mm.group(5))
        elif mm.group(7):
            name = cur.get(mm.group(6) or '0')
            if name in res and res[name]['status'] == 'MISSING':
                res[name]['status'] = 'TIMEOUT'
    return res


def merge_json(results, js):
    """Primary result source: Kani's --export-json (per-harness status, per-check status/location)."""
    by = {}
    for r in (js.get('verification_results') or {}).get('results', []):
        by[r.get('harness_id', '').split('::')[-1]] = r
    cb = {c.get('harness_id', '').split('::')[-1]: c for c in js.get('cbmc', [])}
    for name, r in results.items():
        j = by.get(name)
        if not j:
            continue
        r['full_name'] = j.get('harness_id')
        checks = j.get('checks', [])
        covers = [c for c in checks if c.get('category') == 'cover']
        props = [c for c in checks if c.get('category') != 'cover']
        failed = [c for c in props if c.get('status') == 'Failure']
        tol = r.get('tolerate') or []
        ignored = [c for c in failed if c.get('function') in tol]
        if ignored:
            failed = [c for c in failed if c.get('function') not in tol]
            r['tolerated'] = ['%s: %s' % (c.get('function'), c.get('description')) for c in ignored]
        r['undetermined'] = len([c for c in props if c.get('status') == 'Undetermined'])
        r['checks'] = len(props)
        r['n_failed'] = len(failed)
        r['covers'] = [len([c for c in covers if c.get('status') == 'Satisfied']), len(covers)]
        r['failed_checks'] = [{'description': c.get('description'), 'file': c.get('location', {}).get('file'),
                               'line': int(c.get('location', {}).get('line') or 0), 'function': c.get('function'),
                               'status': c.get('status'), 'category': c.get('category')} for c in failed[:40]]
        r['unwind_failure'] = any('unwinding assertion' in (c.get('description') or '') for c in failed)
        r['time_s'] = round(j.get('duration_ms', 0) / 1000.0, 2)
        st = j.get('status')
        r['status'] = {'Success': 'SUCCESSFUL', 'Failure': 'FAILED'}.get(st, r.get('status') if st is None else st.upper())
        if r['status'] == 'FAILED' and ignored and not failed and not r['undetermined']:
            r['status'] = 'SUCCESSFUL'      # only tolerated tool-model checks failed
        if r['status'] == 'FAILED' and not checks:
            r['status'] = 'TIMEOUT'      # CBMC killed by --harness-timeout (or crashed): no check results
        if name in cb:
            stt = cb[name].get('cbmc_stats') or {}
            r['solver_s'] = stt.get('runtime_solver_s')
            r['symex_s'] = stt.get('runtime_symex_s')
            r['solver'] = (cb[name].get('configuration') or {}).get('solver')
