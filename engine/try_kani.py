import sys, json
sys.path.insert(0,'/verif/engine')
import kunit
files = sys.argv[1].split(',')
only = set(sys.argv[2].split(',')) if len(sys.argv)>2 and sys.argv[2] else None
res, meta = kunit.run_kani(files, only=only, tag='try', keep='--keep' in sys.argv)
for k,v in res.items():
    print(k, v['status'], v.get('checks'), v.get('n_failed'), v.get('covers'), v.get('time_s'))
    for f in v['failed_checks']: print('   ', f)
print(meta['cmd']); print('wall', meta['wall_s'], 'rc', meta['rc'], 'compile_error', meta['compile_error'])
if '--out' in sys.argv or meta['compile_error'] or any(v['status']=='MISSING' for v in res.values()): print(meta['out'][-6000:])
import re
errs = re.findall(r'^error.*?(?=^\S|\Z)', meta['out'], re.M|re.S)
for e in errs[:8]: print('ERR:', e[:700])
