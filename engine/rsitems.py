"""Brace/quote/comment-aware location of Rust items in a source file (DESIGN §3.2 E1).

Items are addressed by a *path* of header patterns, e.g.
    ["trait FieldOps", "fn add"]           -> the provided method `add` of trait FieldOps
    ["impl FieldParameters<u64> for FP64"] -> the impl block
    ["macro_rules! make_field", "fn try_from_bytes"]
Each element is matched (whitespace-insensitively, as a regex if it contains a backslash or `.*`)
at brace depth 0 of the enclosing element's body.  Never by line number.
"""
import re


class LostAnchor(Exception):
    pass


def code_mask(text):
    """Return a bytearray m with m[i]=1 iff text[i] is code (not comment / string / char literal)."""
    n = len(text)
    m = bytearray(n)
    i = 0
    while i < n:
        c = text[i]
        if c == '/' and i + 1 < n and text[i + 1] == '/':
            j = text.find('\n', i)
            i = n if j < 0 else j
            continue
        if c == '/' and i + 1 < n and text[i + 1] == '*':
            depth = 1
            i += 2
            while i < n and depth:
                if text.startswith('/*', i):
                    depth += 1
                    i += 2
                elif text.startswith('*/', i):
                    depth -= 1
                    i += 2
                else:
                    i += 1
            continue
        if c == '"' or (c in 'rb' and re.match(r'(br|rb|r|b)#*"', text[i:i + 12]) and (i == 0 or not (text[i - 1].isalnum() or text[i - 1] == '_'))):
            mm = re.match(r'(br|rb|r|b)?(#*)"', text[i:i + 12])
            raw = mm.group(1) and 'r' in mm.group(1)
            hashes = mm.group(2)
            i0 = i
            i += mm.end()
            if raw:
                end = text.find('"' + hashes, i)
                i = n if end < 0 else end + 1 + len(hashes)
            else:
                while i < n and text[i] != '"':
                    i += 2 if text[i] == '\\' else 1
                i += 1
            for k in range(i0, min(i, n)):
                m[k] = 2
            continue
        if c == "'":
            # char literal or lifetime
            mm = re.match(r"'(\\.[^']*|[^'\\])'", text[i:i + 12])
            if mm:
                for k in range(i, i + mm.end()):
                    m[k] = 2
                i += mm.end()
                continue
            m[i] = 1
            i += 1
            continue
        m[i] = 1
        i += 1
    return m


def match_brace(text, mask, open_idx):
    """Index of the brace matching text[open_idx] ('{', '(' or '[')."""
    o = text[open_idx]
    c = {'{': '}', '(': ')', '[': ']'}[o]
    depth = 0
    for i in range(open_idx, len(text)):
        if mask[i] != 1:
            continue
        if text[i] == o:
            depth += 1
        elif text[i] == c:
            depth -= 1
            if depth == 0:
                return i
    raise LostAnchor("unbalanced %s at %d" % (o, open_idx))


def _pat(elem):
    if '\\' in elem or '.*' in elem:
        return re.compile(elem)
    parts = re.findall(r'[A-Za-z_0-9]+|[^\sA-Za-z_0-9]', elem)
    out = []
    for k, p in enumerate(parts):
        out.append(re.escape(p))
    rx = r'\s*'.join(out)
    if parts and re.match(r'\w', parts[0][0]):
        rx = r'\b' + rx
    if parts and re.match(r'\w', parts[-1][-1]):
        rx = rx + r'\b'
    return re.compile(rx)


def _depths(text, mask, lo, hi):
    d = 0
    out = {}
    arr = [0] * (hi - lo)
    for i in range(lo, hi):
        if mask[i] == 1:
            ch = text[i]
            if ch == '{':
                arr[i - lo] = d
                d += 1
                continue
            if ch == '}':
                d -= 1
        arr[i - lo] = d
    return arr


class Item:
    def __init__(self, text, start, end, body_open, body_close, line):
        self.start, self.end = start, end          # [start, end) covers header..closing brace (or ';')
        self.body_open, self.body_close = body_open, body_close
        self.text = text[start:end]
        self.line = line


def find_item(text, path, mask=None, nth=None):
    """Locate the item addressed by `path`; returns Item.  nth: dict elem_index -> occurrence."""
    if mask is None:
        mask = code_mask(text)
    lo, hi = 0, len(text)
    item = None
    for k, elem in enumerate(path):
        rx = _pat(elem)
        depths = _depths(text, mask, lo, hi)
        cands = []
        for mm in rx.finditer(text, lo, hi):
            s = mm.start()
            if mask[s] != 1 or depths[s - lo] != 0:
                continue
            cands.append(mm)
        want = (nth or {}).get(k)
        if want is None:
            if len(cands) != 1:
                raise LostAnchor("path element %r matched %d times (need 1)" % (elem, len(cands)))
            mm = cands[0]
        else:
            if want >= len(cands):
                raise LostAnchor("path element %r matched %d times (need > %d)" % (elem, len(cands), want))
            mm = cands[want]
        s = mm.start()
        # find body: first '{' or ';' in code at paren/bracket depth 0 after the header
        i = mm.end()
        pd = 0
        body_open = None
        while i < hi:
            if mask[i] == 1:
                ch = text[i]
                if ch in '([':
                    pd += 1
                elif ch in ')]':
                    pd -= 1
                elif ch == '{' and pd == 0:
                    body_open = i
                    break
                elif ch == ';' and pd == 0:
                    break
            i += 1
        if body_open is None:
            item = Item(text, s, i + 1, None, None, text.count('\n', 0, s) + 1)
            lo, hi = s, i + 1
        else:
            bc = match_brace(text, mask, body_open)
            item = Item(text, s, bc + 1, body_open, bc, text.count('\n', 0, s) + 1)
            lo, hi = body_open + 1, bc
    return item


def strip_comments(src):
    """Remove comments (newlines inside them are kept so line offsets survive)."""
    m = code_mask(src)
    out = []
    for i, ch in enumerate(src):
        if m[i] or ch == '\n':
            out.append(ch)
    return ''.join(out)


def tokens(src):
    """Coarse token stream of code (comments dropped, whitespace-insensitive)."""
    s = strip_comments(src)
    return re.findall(r'[A-Za-z_][A-Za-z_0-9]*|\d[\dA-Za-z_]*|"(?:\\.|[^"\\])*"|\S', s)
