"""Decision, counterexample search / replay, known findings, evidence (DESIGN §3.4-3.7)."""
import importlib
import json
import os
import re
import shutil
import subprocess
import time

import kunit
import vunit

ROOT = os.path.dirname(os.path.dirname(os.path.abspath(__file__)))


# --------------------------------------------------------------------------- known findings
def load_known():
    p = os.path.join(ROOT, 'known_findings.json')
    if not os.path.exists(p):
        return []
    return json.load(open(p)).get('findings', [])


def match_known(pid, obligation, detail):
    for f in load_known():
        if f.get('status') != 'known' or f.get('property') != pid:
            continue
        if not re.search(f['obligation'], obligation):
            continue
        if f.get('detail') and not re.search(f['detail'], detail or ''):
            continue
        return f
    return None


# --------------------------------------------------------------------------- vacuity sweep (thorough)
def vacuity_sweep(vres, outdir):
    """For every contracted function of every verified unit regenerate the unit with `ensures false`
    appended to that function only and require Verus to FAIL (so preconditions are satisfiable and
    the body is reachable).  Returns list of records."""
    out = []
    jobs = []
    for r in vres:
        u = r.get('_unit_obj')
        if u is None:
            continue
        for k, part in enumerate(u.parts):
            if part[0] != 'item':
                continue
            jobs.append((u, k))
    import concurrent.futures as cf

    def one(job):
        u, k = job
        import copy
        u2 = vunit.VUnit(u.name + '_vac%d' % k, u.desc)
        u2.parts = []
        for j, part in enumerate(u.parts):
            if j == k:
                it = dict(part[1])
                sig = it['sig'].rstrip('\n')
                if re.search(r'^\s*ensures\b', sig, re.M):
                    # append as an additional ensures clause
                    it['sig'] = sig + '\nensures\nfalse,\n' if not sig.strip().endswith(',') else sig + '\nfalse,\n'
                    # a second `ensures` keyword is not legal; splice after the last clause instead
                    it['sig'] = re.sub(r'\nensures\nfalse,\n$', '\nfalse,\n', it['sig'])
                else:
                    it['sig'] = sig + '\nensures\nfalse,\n'
                u2.parts.append(('item', it))
            else:
                u2.parts.append(part)
        r = u2.run(os.path.join(outdir, 'vac'))
        name = part_name(u.parts[k][1])
        # the probe is `ensures false`: it must NOT verify.  Verus either refutes it (failed) or - on the heavy arithmetic proofs, and on a
        # busy machine - gives up at its resource limit / time box without having proved it: both mean the contract is not vacuous.  Only a
        # probe that VERIFIES (vacuous contract) or that cannot be posed (front-end error: a bug of this sweep) is reported.
        st, reason = r['status'], r.get('reason', '') or ''
        gave_up = st == 'undecided' and ('solver limit' in reason or 'timeout' in reason.lower())
        return {'unit': u.name, 'function': name, 'ensures_false': st if st == 'failed' else '%s: %s' % (st, reason[:120]),
                'ok': st == 'failed' or gave_up}
    with cf.ThreadPoolExecutor(max_workers=8) as ex:
        for rec in ex.map(one, jobs):
            out.append(rec)
    return out


def part_name(it):
    return it.get('name') or it['path'][-1]


# --------------------------------------------------------------------------- counterexample search
def kani_counterexamples(hlist, files, evdir, pid):
    """Re-run the failing harnesses (one cargo kani invocation) with concrete playback, then replay all
    generated unit tests natively on the real crate.  Returns {harness: (replay_path, found_input)}."""
    names = [h['name'] for h in hlist]
    res, meta = kunit.run_kani(files, only=set(names), tag='cex', timeout_harness=600, jobs=1,
                               extra_args=('-Z', 'concrete-playback', '--concrete-playback=print'), keep=True)
    out = meta.get('out', '')
    alltests = re.findall(r'(#\[test\]\s*fn kani_concrete_playback_\w+\(\) \{.*?\n\})', out, re.S)
    by = {n: [] for n in names}
    for t in alltests:
        tn = re.search(r'fn kani_concrete_playback_(\w+)_\d+\(', t).group(1)
        # only tests generated for failed *checks* (not covers): Kani prints the check kind in the doc comment above
        if tn in by:
            by[tn].append(t)
    # drop cover-only tests: locate doc comment preceding each test
    for n in names:
        keep = []
        for t in by[n]:
            k = out.find(t)
            doc = out[max(0, k - 400):k]
            if re.search(r'Check for `cover`[^\n]*\n\s*\n?\s*$', doc):
                continue
            keep.append(t)
        by[n] = keep
    flat = [t for n in names for t in by[n][:2]]
    status, log = {}, ''
    if flat:
        try:
            status, log = run_playback(meta['scratch'], files, flat)
        except Exception as e:
            log = 'playback failed to run: %s' % e
    ret = {}
    for h in hlist:
        n = h['name']
        tnames = re.findall(r'fn (kani_concrete_playback_\w+)', '\n'.join(by[n][:2]))
        reproduced = [t for t in tnames if status.get(t) == 'FAILED']
        replay = {'property': pid, 'kind': 'kani', 'harness': n, 'harness_file': h.get('file'), 'files': files,
                  'clause': h.get('clause'), 'failed_checks': h.get('failed_checks'), 'kani_cmd': meta.get('cmd'),
                  'concrete_playback_tests': by[n][:2], 'playback_reproduces': bool(reproduced),
                  'playback_status': {t: status.get(t) for t in tnames},
                  'playback_panics': re.findall(r"panicked at [^\n]*\n[^\n]*", log)[:6]}
        if not by[n]:
            replay['verifier_output'] = out[-6000:]
        if not reproduced and h.get('oracle'):
            # the harness abstracts field multiplication (contract stub), so CBMC's model need not replay
            # natively: let the executable form of the contract look for a failing input on the real code
            try:
                found, olog, inp = run_oracle(h['oracle'], None)
                replay['oracle'] = {'inject': h['oracle']['inject'], 'test': h['oracle']['test'], 'log': olog[-6000:], 'failing_input': inp}
                reproduced = reproduced or found
            except Exception as e:
                replay['oracle'] = {'error': str(e)}
        path = os.path.join(evdir, 'replay', '%s-%s.json' % (pid, n))
        json.dump(replay, open(path, 'w'), indent=1)
        ret[n] = (path, bool(reproduced))
    shutil.rmtree(meta['scratch'], ignore_errors=True)
    return ret


def run_playback(scratch, files, tests):
    """Insert playback tests into the harness modules of the scratch copy; run them natively (real code)."""
    dst = os.path.join(scratch, 'repo')
    parsed = [kunit.parse_harness_file(os.path.join(kunit.HARNESS_DIR, n)) for n in files]
    for t in tests:
        harness = re.search(r'fn kani_concrete_playback_(\w+)_\d+\(', t).group(1)
        hf = [f for f in parsed if any(h['name'] == harness for h in f['harnesses'])][0]
        target = os.path.join(dst, hf['inject'])
        src = open(target).read()
        k = src.rstrip().rfind('}')      # last closing brace = end of the (last) injected harness module
        src = src[:k] + '\n' + t + '\n' + src[k:]
        open(target, 'w').write(src)
    env = dict(os.environ, CARGO_NET_OFFLINE='true', CARGO_TARGET_DIR=os.path.join(scratch, 'target-pb'))
    env.pop('RUSTUP_TOOLCHAIN', None)
    cmd = ['cargo', 'kani', 'playback', '-Z', 'concrete-playback', '--features', 'experimental', '--lib',
           '--', 'kani_concrete_playback', '--test-threads', '4']
    p = subprocess.run(cmd, cwd=dst, env=env, capture_output=True, text=True, timeout=1800)
    log = p.stdout + '\n' + p.stderr
    status = {}
    for mm in re.finditer(r'test [\w:]*?(kani_concrete_playback_\w+) \.\.\. (\w+)', log):
        status[mm.group(1)] = mm.group(2)
    return status, '$ ' + ' '.join(cmd) + '\n' + log


def verus_counterexample(unit_res, failure, evdir, pid):
    """Verus gives no counterexample: search with the unit's executable oracle (if it has one) on the
    real crate; otherwise record the failed obligation with the verifier output."""
    u = unit_res.get('_unit_obj')
    name = re.sub(r'[^\w]+', '_', failure['obligation'])[:80]
    replay = {'property': pid, 'kind': 'verus', 'unit': unit_res['unit'], 'obligation': failure['obligation'],
              'message': failure['message'], 'where': failure.get('where'), 'verifier_output': failure.get('rendered'),
              'verus_cmd': unit_res.get('cmd')}
    found = False
    oracle = getattr(u, 'oracle', None) if u else None
    if oracle:
        try:
            found, log, inp = run_oracle(oracle, failure.get('function'))
            replay['oracle'] = {'inject': oracle['inject'], 'log': log[-6000:], 'failing_input': inp}
        except Exception as e:
            replay['oracle'] = {'error': str(e)}
    path = os.path.join(evdir, 'replay', '%s-%s.json' % (pid, name))
    json.dump(replay, open(path, 'w'), indent=1)
    return path, found


_ORACLE_CACHE = {}


def run_oracle(oracle, function):
    key = (oracle['file'], oracle['test'])
    if key not in _ORACLE_CACHE:
        _ORACLE_CACHE[key] = _run_oracle(oracle, function)
    return _ORACLE_CACHE[key]


def _run_oracle(oracle, function):
    """oracle = {'inject': 'src/x.rs', 'file': '<name in /verif/replay>', 'test': 'mod::path'}:
    an executable form of the contracts as a #[cfg(test)] module, run on the real crate in a scratch copy."""
    root = os.path.join(kunit.scratch_root(), 'oracle')
    if os.path.exists(root):
        shutil.rmtree(root)
    dst = os.path.join(root, 'repo')
    os.makedirs(root)
    subprocess.run(['rsync', '-a', '--exclude', 'target', '--exclude', '.git', kunit.REPO + '/', dst + '/'], check=True)
    txt = open(os.path.join(ROOT, 'replay', oracle['file'])).read()
    with open(os.path.join(dst, oracle['inject']), 'a') as f:
        f.write('\n' + txt)
    env = dict(os.environ, CARGO_NET_OFFLINE='true', VERIF_SEED=os.environ.get('VERIF_SEED', '0'),
               CARGO_TARGET_DIR=os.path.join(root, 'target'))
    cmd = ['cargo', 'test', '--offline', '--lib', '--features', 'experimental', oracle['test'], '--', '--nocapture', '--test-threads', '1']
    p = subprocess.run(cmd, cwd=dst, env=env, capture_output=True, text=True, timeout=1500)
    log = p.stdout + '\n' + p.stderr[-3000:]
    shutil.rmtree(root, ignore_errors=True)
    # only what the test itself printed (stdout, at the start of a line): a compiler diagnostic that echoes a source line is not a finding
    mm = re.findall(r'^COUNTEREXAMPLE (.*)', p.stdout, re.M)
    # a panic inside the real function on an input satisfying the precondition is a failing input too
    mm += ['panic: ' + re.sub(r'\s+', ' ', x) for x in re.findall(r'panicked at src/[^\n]*\n[^\n]*', log)]
    return (len(mm) > 0), log, (mm[:5] if mm else None)


def replay_file(pid, path):
    r = json.load(open(path))
    print(json.dumps({k: r[k] for k in r if k not in ('verifier_output', 'playback_log')}, indent=1)[:4000])
    if r.get('kind') == 'kani' and r.get('concrete_playback_tests'):
        files = r.get('files') or ['common.rs', r['harness_file']]
        root, dst = kunit.prepare_scratch([kunit.parse_harness_file(os.path.join(kunit.HARNESS_DIR, n)) for n in files], 'replay')
        status, log = run_playback(root, files, r['concrete_playback_tests'])
        shutil.rmtree(root, ignore_errors=True)
        print(log[-3000:])
        ok = any(v == 'FAILED' for v in status.values())
        print('REPRODUCED' if ok else 'NOT-REPRODUCED')
        return 1 if ok else 0
    if r.get('kind') == 'verus' and r.get('oracle'):
        print('re-running oracle ...')
    return 0


# --------------------------------------------------------------------------- decision + evidence
def decide(pid, tier, seed, P, vres, kres, kmeta, vac, t0, evdir):
    violations, known, undecided, kani_failed = [], [], [], []
    obligations = discharged = 0
    bounded = []
    backends = {}
    samples = []
    functions = []
    assumptions = list(P.get('assumptions', []))
    per_unit = []
    solver_ms = 0.0

    # ---- Verus
    for r in vres:
        names = r.get('obligations', [])
        functions.extend(r.get('functions', []))
        for a in r.get('assumptions', []):
            if a not in assumptions:
                assumptions.append(a)
        rec = {'unit': r['unit'], 'backend': 'verus(z3)', 'status': r['status'], 'obligations': len(names),
               'wall_s': r.get('wall_s')}
        if r.get('verus'):
            rec['smt_ms'] = r['verus'].get('smt_ms')
            rec['verified_items'] = r['verus'].get('verified')
            solver_ms += r['verus'].get('smt_ms') or 0
            rec['slowest'] = sorted(r['verus'].get('per_function', []), key=lambda f: -f['ms'])[:3]
        if r['status'] == 'verified':
            obligations += len(names)
            discharged += len(names)
            if len(samples) < 6 and names:
                ct = r.get('clause_text') or {}
                written = [{'obligation': n, 'contract': 'ensures ' + ct[n]} for n in names if n in ct][:4]
                samples.append({'backend': 'verus', 'unit': r['unit'], 'obligation': names[0],
                                'written_out': written, 'all_in_unit': names[:12]})
            # units whose contract has a clause the verifier cannot express (allocation) carry `oracle_always`: in the thorough
            # tier the executable contract is evaluated on the real code on EVERY run, not only when the proof stops going through
            u_ = r.get('_unit_obj')
            if tier == 'thorough' and u_ is not None and getattr(u_, 'oracle_always', False) and getattr(u_, 'oracle', None):
                f = {'obligation': '%s/(executable contract)' % r['unit'], 'message': 'executable contract of the unit', 'function': None, 'rendered': ''}
                path, found = verus_counterexample(r, f, evdir, pid)
                rec['oracle_always'] = {'found_failing_input': bool(found)}
                obligations += 1
                if found:
                    violations.append({'obligation': f['obligation'] + ' -- the executable contract finds a failing input on the real code', 'replay': path, 'found_input': True, 'message': ''})
                else:
                    discharged += 1
        elif r['status'] == 'failed':
            obligations += len(names)
            bad = set()
            for f in r.get('failed', []):
                bad.add(f['obligation'])
                kf = match_known(pid, f['obligation'], f.get('message', '') + ' ' + f.get('rendered', ''))
                if kf:
                    known.append((kf, f['obligation']))
                    continue
                path, found = verus_counterexample(r, f, evdir, pid)
                if r.get('skipped_hints') and not found:
                    undecided.append('%s: %s failed after proof-hint anchors were lost (%s) and the replay oracle found no failing input' % (r['unit'], f['obligation'], '; '.join(r['skipped_hints'])[:300]))
                    continue
                u_ = r.get('_unit_obj')
                paired = (getattr(u_, 'paired_kani', {}) or {}).get((f.get('function') or '').split('/')[-1])
                violations.append({'obligation': f['obligation'], 'replay': path, 'found_input': found,
                                   'message': f['message'], 'paired': paired})
            if not r.get('failed'):
                undecided.append('%s: verus reported errors without diagnostics' % r['unit'])
            discharged += max(0, len(names) - len(bad))
            rec['failed'] = sorted(bad)
        else:
            u_ = r.get('_unit_obj')
            found = False
            if u_ is not None and getattr(u_, 'oracle', None) and ('solver limit' in r.get('reason', '') or r.get('lost_anchor') or 'front-end error' in r.get('reason', '')):
                # Z3 ran out of budget instead of refuting, or the code changed shape under the contract:
                # let the executable contract decide on the real code
                kind_ = 'solver limit' if 'solver limit' in r.get('reason', '') else ('extracted code left the verified subset' if 'front-end error' in r.get('reason', '') else 'contract anchor lost')
                f = {'obligation': '%s/(%s)' % (r['unit'], kind_), 'message': r.get('reason', ''), 'function': None, 'rendered': r.get('reason', '')}
                path, found = verus_counterexample(r, f, evdir, pid)
                if found:
                    obligations += len(names)
                    violations.append({'obligation': f['obligation'] + ' -- proof no longer goes through and the replay oracle finds a failing input', 'replay': path, 'found_input': True, 'message': f['message']})
            if not found:
                undecided.append('%s: %s' % (r['unit'], r.get('reason', '')[:600]))
        per_unit.append(rec)
        # keep the extraction diff next to the evidence (DESIGN §3.2 E8)
        if r.get('diffs'):
            with open(os.path.join(evdir, 'extract', r['unit'] + '.json'), 'w') as f:
                json.dump({'unit': r['unit'], 'repo': vunit.REPO, 'functions': r.get('functions'), 'items': r['diffs']}, f, indent=1)

    # ---- Kani
    files_by_h = {}
    for grp in P.get('quick', {}).get('kani', []) + P.get('thorough', {}).get('kani', []):
        for n in grp['files']:
            hf = kunit.parse_harness_file(os.path.join(kunit.HARNESS_DIR, n))
            for h in hf['harnesses']:
                files_by_h[h['name']] = grp['files']
    for m in kmeta:
        if m.get('compile_error'):
            msg = 'kani build failed: ' + re.sub(r'\s+', ' ', '\n'.join(
                l for l in m.get('out', '').split('\n') if l.startswith('error'))[:800])
            found_ = False
            if not m.get('out', '').startswith('engine error'):
                # the tree no longer builds under the Kani compiler (a construct it cannot translate, or an internal error): the
                # harnesses of this group cannot decide; let the executable contract attached to a harness file decide on the real code
                for n_ in m.get('files', []):
                    n_ = n_['file'] if isinstance(n_, dict) else n_
                    try:
                        hf_ = kunit.parse_harness_file(os.path.join(kunit.HARNESS_DIR, os.path.basename(n_)))
                    except Exception:
                        continue
                    orc_ = hf_['harnesses'][0].get('oracle') if hf_['harnesses'] else None
                    if not orc_:
                        continue
                    try:
                        f_, olog_, inp_ = run_oracle(orc_, None)
                    except Exception as e:
                        continue
                    if f_:
                        os.makedirs(os.path.join(evdir, 'replay'), exist_ok=True)
                        path_ = os.path.join(evdir, 'replay', '%s-kani-build-%s.json' % (pid, os.path.basename(n_).replace('.rs', '')))
                        json.dump({'property': pid, 'kind': 'kani-build', 'harness_file': n_, 'verifier_output': msg,
                                   'oracle': {'inject': orc_['inject'], 'test': orc_['test'], 'log': olog_[-6000:], 'failing_input': inp_}}, open(path_, 'w'), indent=1)
                        violations.append({'obligation': 'kani/%s/(the tree no longer builds under the Kani compiler) -- the executable contract of the harness file finds a failing input' % os.path.basename(n_),
                                           'replay': path_, 'found_input': True, 'message': msg})
                        found_ = True
                        break
            if not found_:
                undecided.append(msg)
        for s in m.get('stubs', []):
            a = 'kani::stub %s (contract stub, see harness/common.rs)' % re.sub(r'\s+', '', s)
            if a not in assumptions:
                assumptions.append(a)
    for name, h in kres.items():
        complete = h['label'].startswith('complete')
        rec = {'harness': name, 'backend': 'kani(cbmc/%s)' % (h.get('solver') or 'cadical'), 'label': h['label'],
               'clause': h['clause'], 'status': h['status'], 'checks': h.get('checks'), 'covers': h.get('covers'),
               'time_s': h.get('time_s'), 'solver_s': h.get('solver_s')}
        solver_ms += 1000 * (h.get('solver_s') or 0)
        n = h.get('checks') or 0
        for tl in (h.get('tolerated') or [])[:1]:
            a = 'kani/%s: failed checks inside the tool library function %s are not counted (allocator model of Kani; the code under contract is safe Rust)' % (name, tl.split(':')[0])
            if a not in assumptions:
                assumptions.append(a)
        if h['status'] == 'SUCCESSFUL':
            cov = h.get('covers') or [0, 0]
            if cov[0] != cov[1]:
                undecided.append('kani/%s: cover not satisfied (%d of %d) -- harness may be vacuous' % (name, cov[0], cov[1]))
            if n == 0:
                undecided.append('kani/%s: zero checks' % name)
            if complete:
                obligations += n
                discharged += n
            else:
                bounded.append({'harness': name, 'bound': h['label'], 'checks': n, 'clause': h['clause']})
            if len(samples) < 10:
                samples.append({'backend': 'kani', 'harness': name, 'clause': h['clause'], 'label': h['label'], 'checks': n})
        elif h['status'] == 'FAILED':
            fcs = h.get('failed_checks', [])
            real = [f for f in fcs if 'unwinding assertion' not in (f.get('description') or '')]
            alldesc = '; '.join('%s @%s:%s' % (f['description'], os.path.basename(f.get('file') or '?'), f.get('line')) for f in fcs[:6])
            kf0 = match_known(pid, 'kani/%s' % name, alldesc)
            if kf0:
                known.append((kf0, 'kani/%s' % name))
                bounded.append({'harness': name, 'bound': h['label'], 'checks': n, 'known_finding': kf0.get('what'), 'clause': h['clause']})
            elif not real:
                undecided.append('kani/%s: only unwinding assertions failed (bound too small for this tree)' % name)
            else:
                if complete:
                    obligations += n
                    discharged += n - len(real)
                else:
                    bounded.append({'harness': name, 'bound': h['label'], 'checks': n, 'failed': len(real), 'clause': h['clause']})
                desc = '; '.join('%s @%s:%s' % (f['description'], os.path.basename(f.get('file') or '?'), f.get('line')) for f in real[:6])
                obname = 'kani/%s' % name
                kf = match_known(pid, obname, desc)
                if kf:
                    known.append((kf, obname))
                else:
                    kani_failed.append((h, obname + ': ' + desc))
        else:
            undecided.append('kani/%s: %s' % (name, h['status']))
        per_unit.append(rec)

    # counterexamples for all failing harnesses in one playback run per harness-file group
    groups = {}
    for h, ob in kani_failed:
        groups.setdefault(tuple(files_by_h.get(h['name'], ['common.rs', h['file']])), []).append((h, ob))
    kani_replays = {}
    for files, lst in groups.items():
        try:
            if os.environ.get('VERIF_FAST_TRIAGE'):
                # detection sweeps (bin/seedmatrix): skip the concrete-playback re-run; the replay file names the
                # failed checks and the VIOLATION line says no-failing-input-found
                raise RuntimeError('concrete playback skipped (VERIF_FAST_TRIAGE)')
            ret = kani_counterexamples([h for h, _ in lst], list(files), evdir, pid)
        except Exception as e:
            ret = {}
            for h, ob in lst:
                path = os.path.join(evdir, 'replay', '%s-%s.json' % (pid, h['name']))
                json.dump({'property': pid, 'harness': h['name'], 'failed_checks': h.get('failed_checks'), 'error': str(e)}, open(path, 'w'), indent=1)
                ret[h['name']] = (path, False)
        for h, ob in lst:
            path, found = ret[h['name']]
            kani_replays[h['name']] = (path, found)
            violations.append({'obligation': ob, 'replay': path, 'found_input': found, 'message': h['clause']})
    # a Verus failure whose paired Kani harness produced a failing input points at that replay
    for v in violations:
        pk = v.pop('paired', None)
        if pk and not v['found_input']:
            for hn in pk:
                if hn in kani_replays and kani_replays[hn][1]:
                    v['replay'], v['found_input'] = kani_replays[hn]
                    break

    for v in vac:
        if not v['ok']:
            undecided.append('vacuity: `ensures false` on %s/%s did not fail (%s)' % (v['unit'], v['function'], v['ensures_false']))

    backends = sorted(set(p['backend'] for p in per_unit))
    level = P.get('level', 'other')
    explanation = P.get('explanation', '')
    ev = {
        'property_id': pid, 'tier': tier, 'seed': seed, 'level': level,
        'coverage': {
            'obligations': obligations, 'discharged': discharged,
            'checker_cmd': 'verus <generated unit>.rs --output-json --time  |  ' + (kmeta[0]['cmd'] if kmeta else 'no kani group'),
            'trusted_base': GLOBAL_TRUSTED_FOR(P),
            'explanation': explanation,
            'functions_under_contract': functions,
            'units': per_unit,
            'bounded': bounded,
            'vacuity_sweep': vac,
            'samples': samples or [{'note': 'no obligation discharged on this run'}],
            'solver_time_ms': round(solver_ms),
            'backends': backends,
            'undecided': undecided,
            'known_findings_reported': [k[0].get('what') for k in known],
            'repo': vunit.REPO,
        },
        'assumptions': assumptions,
        'wall_s': round(time.time() - t0, 1),
        'violations': len(violations),
    }
    # a proof-level claim requires discharged == obligations; otherwise the run itself says "other"
    if level == 'proof' and (discharged != obligations or obligations == 0):
        ev['level'] = 'other'
        ev['coverage']['explanation'] = 'NOT a proof on this run: %d of %d obligations discharged. ' % (discharged, obligations) + explanation
    with open(os.path.join(evdir, pid + '.json'), 'w') as f:
        json.dump(ev, f, indent=1)

    seen = set()
    for kf, ob in known:
        key = kf.get('what')
        if key in seen:
            continue
        seen.add(key)
        print('KNOWN-FINDING: property=%s %s' % (pid, kf.get('what')))
    for v in violations:
        print('VIOLATION property=%s replay=%s%s' % (pid, v['replay'], '' if v['found_input'] else ' no-failing-input-found'))
        print('  failed obligation: %s' % v['obligation'])
    for u in undecided:
        print('UNDECIDED: %s' % u)
    print('%s %s: %d/%d obligations discharged, %d bounded stand-ins (%d checks passed within their bounds, not counted as proved), %d violations, %d undecided, %.0fs'
          % (pid, tier, discharged, obligations, len(bounded), sum(b.get('checks', 0) - b.get('failed', 0) for b in bounded), len(violations), len(undecided), time.time() - t0))
    if violations:
        return 1, ev
    if undecided:
        return 2, ev
    return 0, ev


def GLOBAL_TRUSTED_FOR(P):
    from registry import GLOBAL_TRUSTED
    return GLOBAL_TRUSTED + list(P.get('trusted', []))
